// Package core holds the plumbing shared by every monitor: per-case PRNG,
// observation counters, violation records, distinct-case hashing and the
// shard report written by the worker and merged by the driver.
package core

import (
	"encoding/binary"
	"encoding/json"
	"fmt"
	"hash/fnv"
	"math/rand"
	"os"
	"sort"
)

// ---- PRNG: splitmix64 as rand.Source64 (cheap to seed per case) ----

type sm64 struct{ s uint64 }

func (x *sm64) Uint64() uint64 {
	x.s += 0x9e3779b97f4a7c15
	z := x.s
	z = (z ^ (z >> 30)) * 0xbf58476d1ce4e5b9
	z = (z ^ (z >> 27)) * 0x94d049bb133111eb
	return z ^ (z >> 31)
}
func (x *sm64) Int63() int64    { return int64(x.Uint64() >> 1) }
func (x *sm64) Seed(seed int64) { x.s = uint64(seed) }

func Mix(parts ...uint64) uint64 {
	h := uint64(0x243f6a8885a308d3)
	for _, p := range parts {
		h ^= p + 0x9e3779b97f4a7c15 + (h << 6) + (h >> 2)
		h *= 0xff51afd7ed558ccd
		h ^= h >> 33
	}
	return h
}

func HashStr(s string) uint64 {
	h := fnv.New64a()
	h.Write([]byte(s))
	return h.Sum64()
}

// NewRand returns the PRNG of case idx of property prop under seed; the case
// list is a pure function of (prop, tier, seed), independent of sharding.
func NewRand(prop string, seed int64, idx int, stream uint64) *rand.Rand {
	return rand.New(&sm64{s: Mix(HashStr(prop), uint64(seed), uint64(idx), stream)})
}

// ---- violations ----

type Violation struct {
	Class  string                 `json:"class"` // classifier key (matched against known_findings.json)
	Index  int                    `json:"index"`
	Race   bool                   `json:"race,omitempty"`
	Msg    string                 `json:"msg"`
	Detail map[string]interface{} `json:"detail,omitempty"`
}

type Report struct {
	Prop        string           `json:"prop"`
	Tier        string           `json:"tier"`
	Seed        int64            `json:"seed"`
	Shard       int              `json:"shard"`
	NShards     int              `json:"nshards"`
	Race        bool             `json:"race"`
	Evaluations int64            `json:"evaluations"`
	Counters    map[string]int64 `json:"counters"`
	ViolCount   map[string]int64 `json:"viol_count"`
	Violations  []Violation      `json:"violations"`
	Samples     []interface{}    `json:"samples"`
	Harness     []string         `json:"harness_errors"`
	Done        bool             `json:"done"`
}

const maxStoredPerClass = 3

// Ctx is handed to a monitor for each case.
type Ctx struct {
	Prop    string
	Tier    string
	Seed    int64
	Race    bool
	Index   int
	R       *rand.Rand
	Verbose bool

	rep     Report
	hashes  map[uint64]struct{}
	sets    map[string]map[uint64]struct{}
	maxSamp int
}

func NewCtx(prop, tier string, seed int64, shard, nshards int, race bool) *Ctx {
	c := &Ctx{Prop: prop, Tier: tier, Seed: seed, Race: race, maxSamp: 4}
	c.rep = Report{Prop: prop, Tier: tier, Seed: seed, Shard: shard, NShards: nshards, Race: race,
		Counters: map[string]int64{}, ViolCount: map[string]int64{}}
	c.hashes = map[uint64]struct{}{}
	c.sets = map[string]map[uint64]struct{}{}
	return c
}

func (c *Ctx) Thorough() bool { return c.Tier == "thorough" }

func (c *Ctx) Count(name string)        { c.rep.Counters[name]++ }
func (c *Ctx) Add(name string, n int64) { c.rep.Counters[name] += n }
func (c *Ctx) Eval()                    { c.rep.Evaluations++ }
func (c *Ctx) Evals(n int64)            { c.rep.Evaluations += n }
func (c *Ctx) Max(name string, v int64) {
	if v > c.rep.Counters[name] {
		c.rep.Counters[name] = v
	}
}

// Distinct records membership of h in the named set; the set sizes are merged
// exactly across shards by the driver (hash files).
func (c *Ctx) Distinct(set string, h uint64) {
	s := c.sets[set]
	if s == nil {
		s = map[uint64]struct{}{}
		c.sets[set] = s
	}
	s[h] = struct{}{}
}

// NonTrivial records one distinct non-trivial case.
func (c *Ctx) NonTrivial(parts ...string) {
	h := fnv.New64a()
	for _, p := range parts {
		h.Write([]byte(p))
		h.Write([]byte{0})
	}
	c.hashes[h.Sum64()] = struct{}{}
}

func (c *Ctx) Sample(v interface{}) {
	if len(c.rep.Samples) < c.maxSamp {
		c.rep.Samples = append(c.rep.Samples, v)
	}
}

func (c *Ctx) WantSample() bool { return len(c.rep.Samples) < c.maxSamp }

// Violate records a refutation of the property observed on case c.Index.
func (c *Ctx) Violate(class, msg string, detail map[string]interface{}) {
	c.rep.ViolCount[class]++
	if c.rep.ViolCount[class] <= maxStoredPerClass {
		c.rep.Violations = append(c.rep.Violations, Violation{Class: class, Index: c.Index, Race: c.Race, Msg: msg, Detail: detail})
	}
	if c.Verbose {
		b, _ := json.MarshalIndent(detail, "  ", "  ")
		fmt.Printf("VIOLATED class=%s index=%d: %s\n  %s\n", class, c.Index, msg, b)
	}
}

func (c *Ctx) Harness(msg string) {
	if len(c.rep.Harness) < 20 {
		c.rep.Harness = append(c.rep.Harness, msg)
	}
	if c.Verbose {
		fmt.Println("HARNESS:", msg)
	}
}

func (c *Ctx) Violated() bool { return len(c.rep.ViolCount) > 0 }

// WriteReport writes the shard report and the distinct-hash files.
func (c *Ctx) WriteReport(dir string, done bool) error {
	c.rep.Done = done
	b, err := json.Marshal(&c.rep)
	if err != nil {
		return err
	}
	tag := fmt.Sprintf("%s/shard-%02d", dir, c.rep.Shard)
	if c.Race {
		tag += "r"
	}
	if err := writeHashes(tag+".nt", c.hashes); err != nil {
		return err
	}
	names := make([]string, 0, len(c.sets))
	for n := range c.sets {
		names = append(names, n)
	}
	sort.Strings(names)
	for _, n := range names {
		if err := writeHashes(tag+".set."+n, c.sets[n]); err != nil {
			return err
		}
	}
	return os.WriteFile(tag+".json", b, 0o644)
}

func writeHashes(path string, m map[uint64]struct{}) error {
	buf := make([]byte, 0, 8*len(m))
	var t [8]byte
	for h := range m {
		binary.LittleEndian.PutUint64(t[:], h)
		buf = append(buf, t[:]...)
	}
	return os.WriteFile(path, buf, 0o644)
}

func ReadHashes(path string, into map[uint64]struct{}) error {
	b, err := os.ReadFile(path)
	if err != nil {
		return err
	}
	for i := 0; i+8 <= len(b); i += 8 {
		into[binary.LittleEndian.Uint64(b[i:])] = struct{}{}
	}
	return nil
}

// Meta describes a monitor to the driver (printed by `worker -meta`).
type Meta struct {
	ID          string           `json:"id"`
	Level       string           `json:"level"` // exploration | fault_enumeration
	Rule        string           `json:"rule"`
	Assumptions []string         `json:"assumptions"`
	Anchors     []string         `json:"anchors"`    // function names that the workload must execute (reach monitor)
	Floors      map[string]int64 `json:"floors"`     // observation counters that must reach a floor (quick tier)
	SetFloors   map[string]int64 `json:"set_floors"` // distinct-set sizes that must reach a floor
	UsesRace    bool             `json:"uses_race"`
	Exhaustive  bool             `json:"exhaustive"`
}

// Monitor is one property's workload + oracle.
type Monitor interface {
	Meta() Meta
	// Cases returns how many cases the tier has in the plain and in the -race build.
	Cases(tier string, race bool) int
	// Case runs case c.Index with PRNG c.R and reports through c.
	Case(c *Ctx)
}

// Finisher is implemented by monitors with an offline phase over what the shard recorded.
type Finisher interface{ Finish(c *Ctx) }

// D is shorthand for detail maps.
type D = map[string]interface{}
