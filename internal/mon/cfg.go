package mon

import (
	"fmt"
	"math"
	"math/rand"
	"strconv"
	"strings"

	mxj "github.com/clbanning/mxj/v2"

	"verif/internal/jv"
	"verif/internal/xt"
)

// alt marks a leaf of a reference value for which the documentation allows two answers.
type alt struct{ opts []interface{} }

// mkLeaf: a plain value when there is one option, an alt otherwise (options deduplicated by typed fingerprint).
func mkLeaf(opts ...interface{}) interface{} {
	var u []interface{}
	seen := map[string]bool{}
	for _, o := range opts {
		if f := jv.Fp(o); !seen[f] {
			seen[f] = true
			u = append(u, o)
		}
	}
	if len(u) == 1 {
		return u[0]
	}
	return alt{u}
}

// resolveAlts replaces every alt leaf of want by the alternative that got shows (else the first).
func resolveAlts(want, got interface{}) interface{} {
	switch w := want.(type) {
	case alt:
		for _, o := range w.opts {
			if jv.Fp(o) == jv.Fp(got) {
				return o
			}
		}
		return w.opts[0]
	case map[string]interface{}:
		var g map[string]interface{}
		switch t := got.(type) {
		case map[string]interface{}:
			g = t
		case mxj.Map:
			g = t
		case mxj.MapSeq:
			g = t
		}
		o := make(map[string]interface{}, len(w))
		for k, v := range w {
			o[k] = resolveAlts(v, g[k])
		}
		return o
	case []interface{}:
		g, _ := got.([]interface{})
		o := make([]interface{}, len(w))
		for i, v := range w {
			var gi interface{}
			if i < len(g) {
				gi = g[i]
			}
			o[i] = resolveAlts(v, gi)
		}
		return o
	}
	return want
}

// Cfg is one combination of the package-level decoder options.
type Cfg struct {
	AttrPrefix, KeyPrefix                                 string
	Lower, Snake, SimpleAsMap, KeepSpaces, SeqNum, DecEsc bool
	Cast                                                  bool // the cast argument of the decode call
	CastInt, CastFloat, CastBool, CastNanInf, SkipFunc    bool
}

func DefaultCfg() Cfg {
	return Cfg{AttrPrefix: "-", KeyPrefix: "#", CastFloat: true, CastBool: true}
}

func (c Cfg) String() string {
	f := func(b bool, s string) string {
		if b {
			return "+" + s
		}
		return ""
	}
	return fmt.Sprintf("attr=%q key=%q%s%s%s%s%s%s%s%s%s%s%s%s", c.AttrPrefix, c.KeyPrefix,
		f(c.Lower, "lower"), f(c.Snake, "snake"), f(c.SimpleAsMap, "simplemap"), f(c.KeepSpaces, "keepspaces"),
		f(c.SeqNum, "seqnum"), f(c.DecEsc, "decesc"), f(c.Cast, "cast"), f(c.CastInt, "int"), f(!c.CastFloat, "nofloat"),
		f(!c.CastBool, "nobool"), f(c.CastNanInf, "naninf"), f(c.SkipFunc, "skipfn"))
}

// skipTag is the predicate installed by SkipFunc: tags (as they appear as keys of the Map: folded, prefixed) that end in
// 'b' or contain an underscore are not cast.
func skipTag(t string) bool { return strings.HasSuffix(t, "b") || strings.Contains(t, "_") }

// Apply sets the configuration through the public setters only.
func (c Cfg) Apply() {
	mxj.SetAttrPrefix(c.AttrPrefix)
	mxj.SetGlobalKeyMapPrefix(c.KeyPrefix)
	mxj.CoerceKeysToLower(c.Lower)
	mxj.CoerceKeysToSnakeCase(c.Snake)
	mxj.DecodeSimpleValuesAsMap(c.SimpleAsMap)
	mxj.DisableTrimWhiteSpace(c.KeepSpaces)
	mxj.IncludeTagSeqNum(c.SeqNum)
	mxj.XMLEscapeCharsDecoder(c.DecEsc)
	mxj.CastValuesToInt(c.CastInt)
	mxj.CastValuesToFloat(c.CastFloat)
	mxj.CastValuesToBool(c.CastBool)
	mxj.CastNanInf(c.CastNanInf)
	if c.SkipFunc {
		mxj.SetCheckTagToSkipFunc(skipTag)
	} else {
		mxj.SetCheckTagToSkipFunc(nil)
	}
}

var attrPrefixes = []string{"-", "@", "_", "attr_", "§", "Attr_", "A", ""}
var keyPrefixes = []string{"#", "%", "_", "&"}

// GenCfg draws a configuration; full=false flips each option with lower probability so defaults stay common.
func GenCfg(r *rand.Rand, allowEmptyAttrPrefix, allowSeqNum bool) Cfg {
	c := DefaultCfg()
	aps := attrPrefixes
	if !allowEmptyAttrPrefix {
		aps = aps[:7]
	}
	if r.Intn(2) == 0 {
		c.AttrPrefix = aps[r.Intn(len(aps))]
	}
	if r.Intn(2) == 0 {
		c.KeyPrefix = keyPrefixes[r.Intn(len(keyPrefixes))]
	}
	if c.AttrPrefix == c.KeyPrefix {
		c.KeyPrefix = "#"
	}
	c.Lower = r.Intn(3) == 0
	c.Snake = r.Intn(3) == 0
	c.SimpleAsMap = r.Intn(3) == 0
	c.KeepSpaces = r.Intn(3) == 0
	c.SeqNum = allowSeqNum && r.Intn(4) == 0
	c.DecEsc = r.Intn(3) == 0
	c.Cast = r.Intn(2) == 0
	if c.Cast {
		c.CastInt = r.Intn(2) == 0
		c.CastFloat = r.Intn(3) != 0
		c.CastBool = r.Intn(3) != 0
		c.CastNanInf = r.Intn(3) == 0
		c.SkipFunc = r.Intn(4) == 0
	}
	return c
}

// ---------- reference model: the documented NewMapXml conventions (C01) ----------

func (c Cfg) textK() string { return c.KeyPrefix + "text" }

func (c Cfg) foldElem(l string) string {
	if c.Lower {
		l = strings.ToLower(l)
	}
	if c.Snake {
		l = strings.Replace(l, "-", "_", -1)
	}
	return l
}

func (c Cfg) foldAttr(l string) string {
	if c.Snake {
		l = strings.Replace(l, "-", "_", -1)
	}
	k := c.AttrPrefix + l
	if c.Lower {
		k = strings.ToLower(k)
	}
	return k
}

func refEsc(s string) string {
	s = strings.Replace(s, "&", "&amp;", -1)
	s = strings.Replace(s, "<", "&lt;", -1)
	s = strings.Replace(s, ">", "&gt;", -1)
	s = strings.Replace(s, `"`, "&quot;", -1)
	s = strings.Replace(s, "'", "&apos;", -1)
	return s
}

// IsNanInfSpelling: any case variant, optionally signed, of nan / inf / infinity.
func IsNanInfSpelling(s string) bool {
	t := strings.ToLower(s)
	if len(t) > 0 && (t[0] == '+' || t[0] == '-') {
		t = t[1:]
	}
	return t == "nan" || t == "inf" || t == "infinity"
}

// refCastAll: every answer the documentation allows. One cell is open: with BOTH cast-to-int and cast-to-float enabled, a
// text that is not an integer numeral but denotes an integral value (5.0, 1e3, 0x1p4) is a float64 by the code and may as
// well be the int64 the cast-to-int documentation promises ("coerce numeric values to int64 ... instead of float64").
func (c Cfg) refCastAll(s string, key string) []interface{} {
	v := c.refCast(s, key)
	if f, ok := v.(float64); ok && c.Cast && c.CastInt && c.CastFloat && f == math.Trunc(f) && math.Abs(f) < 9e18 {
		return []interface{}{v, int64(f)}
	}
	return []interface{}{v}
}

// refCast is the documented cast decision table; strconv only defines "what the text denotes".
func (c Cfg) refCast(s string, key string) interface{} {
	if c.SkipFunc && key != "" && skipTag(key) {
		return s
	}
	if !c.Cast {
		return s
	}
	if !c.CastNanInf && IsNanInfSpelling(s) {
		return s
	}
	if c.CastInt {
		if v, err := strconv.ParseInt(s, 10, 64); err == nil {
			return v
		}
		if v, err := strconv.ParseUint(s, 10, 64); err == nil {
			return v
		}
	}
	if c.CastFloat {
		if f, err := strconv.ParseFloat(s, 64); err == nil {
			return f
		}
	}
	if c.CastBool && len(s) > 0 && len(s) < 6 && strings.ContainsAny(s[:1], "tTfF") {
		if b, err := strconv.ParseBool(s); err == nil {
			return b
		}
	}
	return s
}

func addVal(m map[string]interface{}, k string, v interface{}) {
	if old, ok := m[k]; ok {
		if l, ok := old.([]interface{}); ok {
			m[k] = append(l, v)
		} else {
			m[k] = []interface{}{old, v}
		}
	} else {
		m[k] = v
	}
}

// RefDecode is the Map the documented conventions prescribe for tree under cfg.
func (c Cfg) RefDecode(root *xt.Node) map[string]interface{} {
	return map[string]interface{}{c.foldElem(root.Local): c.refVal(root)}
}

func (c Cfg) refVal(n *xt.Node) interface{} {
	textK := c.textK()
	trim := "\t\r\b\n "
	if c.KeepSpaces {
		trim = "\t\r\b\n"
	}
	m := map[string]interface{}{}
	for _, a := range n.Attrs {
		v := a.Val
		if c.DecEsc {
			v = refEsc(v)
		}
		k := c.foldAttr(a.Local)
		m[k] = mkLeaf(c.refCastAll(v, k)...) // attribute keys are unique after folding by construction
	}
	seq := 0
	for _, k := range n.Kids() {
		v := c.refVal(k)
		if c.SeqNum {
			if vm, ok := v.(map[string]interface{}); ok {
				vm["_seq"] = seq
			} else {
				v = map[string]interface{}{textK: v, "_seq": seq}
			}
			seq++
		}
		// under the empty attribute prefix an attribute and a same-named child share the key (attribute first)
		addVal(m, c.foldElem(k.Local), v)
	}
	raw, _ := n.TextRun()
	t := strings.Trim(raw, trim)
	if c.DecEsc {
		t = refEsc(t)
	}
	if t != "" {
		if len(m) > 0 || c.SimpleAsMap {
			opts := c.refCastAll(t, textK)
			if c.SkipFunc && len(n.Attrs) == 0 && !c.SimpleAsMap {
				// unspecified cell: for text beside children only, the docs do not say whether the
				// skip function sees the element's tag or the text key; either is accepted
				opts = append(opts, c.refCastAll(t, c.foldElem(n.Local))...)
			}
			m[textK] = mkLeaf(opts...)
			return m
		}
		return mkLeaf(c.refCastAll(t, c.foldElem(n.Local))...)
	}
	if len(m) == 0 {
		return ""
	}
	return m
}

// scopeKeepSpaces: DisableTrimWhiteSpace is documented as "white space is trimmed or not"; the code keeps blanks but still
// trims tabs, CR and LF. Both readings agree when no text run has a tab / CR / LF / BS at an edge and the document has no
// inter-element white space (the renderer is told so through Style.NoWS): only then is keep-spaces left on.
func (c *Cfg) scopeKeepSpaces(root *xt.Node) {
	if !c.KeepSpaces {
		return
	}
	root.Walk(func(e *xt.Node) {
		for _, it := range e.Items {
			if it.Kind == xt.KText && strings.Trim(it.Text, "\t\r\n\b") != it.Text {
				c.KeepSpaces = false
			}
		}
	})
}

// usesReserved: an element/attribute key equal to an active reserved key is outside the C01 domain.
func (c Cfg) usesReserved(n *xt.Node) bool {
	bad := false
	n.Walk(func(e *xt.Node) {
		k := c.foldElem(e.Local)
		if k == c.textK() || (c.SeqNum && k == "_seq") {
			bad = true
		}
		for _, a := range e.Attrs {
			ak := c.foldAttr(a.Local)
			if ak == c.textK() || (c.SeqNum && ak == "_seq") {
				bad = true
			}
		}
	})
	return bad
}

// attrCollision: with a non-empty prefix an element key may coincide with an attribute key
// (e.g. prefix "_" + attr "b" vs element "_b"; prefix "a" ...). Such documents make an
// attribute and a child share a key, which the conventions only define for the empty prefix.
func (c Cfg) keyClash(n *xt.Node) bool {
	if c.AttrPrefix == "" {
		return false
	}
	bad := false
	n.Walk(func(e *xt.Node) {
		ak := map[string]bool{}
		for _, a := range e.Attrs {
			ak[c.foldAttr(a.Local)] = true
		}
		for _, k := range e.Kids() {
			if ak[c.foldElem(k.Local)] {
				bad = true
			}
		}
	})
	return bad
}

// elemStartsWithAttrPrefix: C02 excludes documents with element names beginning with the attribute prefix.
func (c Cfg) elemStartsWithAttrPrefix(n *xt.Node) bool {
	bad := false
	n.Walk(func(e *xt.Node) {
		if c.AttrPrefix != "" && strings.HasPrefix(c.foldElem(e.Local), c.AttrPrefix) {
			bad = true
		}
	})
	return bad
}
