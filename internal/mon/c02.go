package mon

import (
	"fmt"
	"sort"
	"strings"

	mxj "github.com/clbanning/mxj/v2"

	"verif/internal/core"
	"verif/internal/jv"
	"verif/internal/xt"
)

// C02 - fixed point XML -> Map -> XML -> Map, well-formed single-root output, conservation.
type c02 struct{}

func init() { register(c02{}) }

func (c02) Meta() core.Meta {
	return core.Meta{
		ID: "C02", Level: "exploration",
		Rule:        "case i = f(seed,i): C01 document (no CR in values, element names not starting with the attribute prefix) x symmetric configuration (non-empty attr prefix x key prefix x lower x snake x simple-as-map x keep-spaces x {encoder-side, decoder-side} escaping x float/bool cast); m1=NewMapXml(doc); x=m1.Xml(); xi=m1.XmlIndent(prefix,indent) with blank indent strings (tab/newline only under keep-spaces). Monitors: std tokenizer accepts x and xi with exactly one root; NewMapXml(x)==m1==NewMapXml(xi); conservation: the XTree parsed from x equals the source XTree after key folding as a tree of per-name child sequences, attribute sets and (cast-normalised, trimmed) text - nothing lost, duplicated or re-parented. Non-trivial as C01; distinct by hash(doc,config,indent).",
		Assumptions: []string{"encoding/xml tokenizer defines well-formedness", "space indents are only used with keep-spaces off (blanks are significant there by documentation)"},
		Anchors:     []string{"Map.Xml", "Map.XmlIndent", "marshalMapToXmlIndent", "escapeChars", "xmlToMapParser", "attrList.Less", "elemList.Less"},
		Floors:      map[string]int64{"feature:interleaved": 50, "feature:wide": 5, "cfg:decesc": 300, "cfg:cast": 300, "cfg:keepspaces": 300, "cfg:simplemap": 300, "feature:specials-in-values": 1000, "feature:text-beside": 1000},
	}
}

func (c02) Cases(tier string, race bool) int {
	if race {
		return 0
	}
	if tier == "thorough" {
		return 400000
	}
	return 30000
}

var c02texts = func() []string {
	var o []string
	for _, t := range xt.DefTexts {
		if !strings.Contains(t, "\r") {
			o = append(o, t)
		}
	}
	return o
}()

var c02gen = xt.GenCfg{Names: xt.DefNames, Prefixes: xt.DefPrefixes, Texts: c02texts, MaxKids: 4, MaxAttrs: 3, WideProb: 40}

// SymCfg draws a symmetric option combination (C02 quantifier).
func SymCfg(c *core.Ctx) Cfg {
	r := c.R
	cfg := GenCfg(r, false, false)
	cfg.CastInt, cfg.CastNanInf, cfg.SkipFunc = false, false, false
	if cfg.Lower && strings.ToLower(cfg.AttrPrefix) != cfg.AttrPrefix {
		cfg.AttrPrefix = "-" // lower-casing folds the prefix too: the encoder would not recognise the keys (not a symmetric combination)
	}
	if cfg.Cast {
		cfg.CastFloat, cfg.CastBool = r.Intn(4) != 0, r.Intn(4) != 0
	}
	return cfg
}

// canon: order-insensitive across names, order-preserving within a name.
func (c Cfg) canonSrc(n *xt.Node) string {
	var attrs []string
	for _, a := range n.Attrs {
		k := a.Local
		if c.Snake {
			k = strings.Replace(k, "-", "_", -1)
		}
		if c.Lower {
			k = strings.ToLower(k)
		}
		attrs = append(attrs, k+"="+jv.Fp(c.castNorm(a.Val)))
	}
	sort.Strings(attrs)
	groups := map[string][]string{}
	for _, k := range n.Kids() {
		name := c.foldElem(k.Local)
		groups[name] = append(groups[name], c.canonSrc(k))
	}
	t, _ := n.TextRun()
	return c.canonJoin(c.foldElem(n.Local), attrs, groups, t)
}

func (c Cfg) castNorm(s string) interface{} {
	cc := c
	cc.SkipFunc = false
	return cc.refCast(s, "")
}

func (c Cfg) trimText(t string) string {
	trim := "\t\r\b\n "
	if c.KeepSpaces {
		trim = "\t\r\b\n"
	}
	return strings.Trim(t, trim)
}

func (c Cfg) canonJoin(name string, attrs []string, groups map[string][]string, text string) string {
	var b strings.Builder
	b.WriteString("<" + name + " [" + strings.Join(attrs, ",") + "] ")
	if t := c.trimText(text); t != "" {
		b.WriteString("T" + jv.Fp(c.castNorm(t)) + " ")
	}
	names := make([]string, 0, len(groups))
	for g := range groups {
		names = append(names, g)
	}
	sort.Strings(names)
	for _, g := range names {
		b.WriteString(g + ":(" + strings.Join(groups[g], ";") + ")")
	}
	b.WriteString(">")
	return b.String()
}

// canonOut: canonical form of the re-encoded document (names already folded; prefixes gone).
func (c Cfg) canonOut(n *xt.Node) string {
	var attrs []string
	for _, a := range n.Attrs {
		attrs = append(attrs, xt.QN(a.Prefix, a.Local)+"="+jv.Fp(c.castNorm(a.Val)))
	}
	sort.Strings(attrs)
	groups := map[string][]string{}
	for _, k := range n.Kids() {
		groups[k.Name()] = append(groups[k.Name()], c.canonOut(k))
	}
	t, _ := n.TextRun()
	return c.canonJoin(n.Name(), attrs, groups, t)
}

func (c02) Case(c *core.Ctx) {
	r := c.R
	cfg := SymCfg(c)
	root := c02gen.Gen(r, r.Intn(6))
	if cfg.usesReserved(root) || cfg.keyClash(root) || cfg.elemStartsWithAttrPrefix(root) {
		c.Count("skipped:outside-domain")
		return
	}
	// one case in eight: text runs split by a comment, an instruction, a CDATA boundary or a child element. What the first
	// decode makes of such text is not what this property is about - whatever Map it returns must be a fixed point of
	// encode + decode (the conservation comparison with the source tree is skipped for these documents).
	split := r.Intn(8) == 0
	if split {
		words := []string{"true", "false", "1.5", "1e3", "0x1p-2", "10", "NaN", "-Inf", "TRUE", "12345678901234567890"}
		root.Walk(func(e *xt.Node) {
			for i, it := range e.Items {
				if it.Kind != xt.KText || r.Intn(2) != 0 {
					continue
				}
				t := []rune(it.Text)
				if cfg.Cast && r.Intn(2) == 0 {
					t = []rune(words[r.Intn(len(words))]) // pieces that are castable only when joined
				}
				if len(t) < 2 || strings.Contains(string(t), "]") {
					continue // (a piece ending in "]]" followed by a piece starting with ">" would need the renderer's cross-piece escaping)
				}
				cut := 1 + r.Intn(len(t)-1)
				a, b := xt.Item{Kind: xt.KText, Text: string(t[:cut])}, xt.Item{Kind: xt.KText, Text: string(t[cut:])}
				rest := append([]xt.Item{}, e.Items[i+1:]...)
				head := append([]xt.Item{}, e.Items[:i]...)
				switch r.Intn(4) {
				case 0:
					e.Items = append(append(head, a, xt.Item{Kind: xt.KComment, Text: " c "}, b), rest...)
				case 1:
					e.Items = append(append(head, a, xt.Item{Kind: xt.KPI, Target: "pi", Text: "x"}, b), rest...)
				case 2:
					e.Items = append(append(head, a, b), rest...) // adjacent pieces: rendered as CDATA / escaped text independently
				default:
					// first piece where it was, second piece after everything else (text on both sides of the children)
					e.Items = append(append(head, a), append(rest, b)...)
				}
				c.Count("feature:split-text-run")
				break
			}
		})
	}
	cfg.scopeKeepSpaces(root)
	doc := append([]byte(xt.Prolog(r)), xt.Render(r, root, xt.Style{KeepSpaces: cfg.KeepSpaces, NoWS: cfg.KeepSpaces})...)
	indent := []string{"  ", " ", "\t", "    ", "\t\t", ""}[r.Intn(6)]
	prefix := []string{"", "", " ", "\t"}[r.Intn(4)]
	if cfg.KeepSpaces {
		indent = []string{"\t", "\t\t", "\n", ""}[r.Intn(4)]
		prefix = []string{"", "\t"}[r.Intn(2)]
	}
	cfg.Apply()
	mxj.XMLEscapeChars(!cfg.DecEsc)
	defer ResetDefaults()
	if c.R.Intn(8) == 0 {
		// the other spelling of empty elements (<a></a> instead of <a/>): documented to change nothing else
		mxj.XmlGoEmptyElemSyntax()
		c.Count("option:go-empty-element-syntax")
	}
	c.Eval()
	failedCalls(c, 8)
	f := root.Features()
	if f.Interleaved {
		c.Count("feature:interleaved")
	}
	if f.Wide {
		c.Count("feature:wide")
	}
	if f.MixedText {
		c.Count("feature:text-beside")
	}
	if cfg.DecEsc {
		c.Count("cfg:decesc")
	}
	if cfg.Cast {
		c.Count("cfg:cast")
	}
	if cfg.KeepSpaces {
		c.Count("cfg:keepspaces")
	}
	if cfg.SimpleAsMap {
		c.Count("cfg:simplemap")
	}
	if strings.ContainsAny(root.String(), "&") {
		c.Count("feature:specials-in-values")
	}
	if root.Depth() >= 2 && (f.Repeat || f.Attr || f.MixedText || f.NSPrefix) {
		c.NonTrivial(string(doc), cfg.String(), indent, prefix)
	}
	m1, err := mxj.NewMapXml(doc, cfg.Cast)
	det := core.D{"config": cfg.String(), "doc": string(doc)}
	if err != nil {
		det["err"] = err.Error()
		c.Violate("c02-decode-error", "NewMapXml failed on a well-formed document", det)
		return
	}
	fp1 := jv.Fp(m1)
	srcCanon := cfg.canonSrc(root)
	if c.WantSample() && root.Depth() >= 1 && len(doc) < 250 {
		x, _ := m1.Xml()
		c.Sample(core.D{"config": cfg.String(), "doc": string(doc), "reencoded": string(x)})
	}
	defer verifyKept(c, "c02-retained-output-changed")
	for _, enc := range []string{"Xml", "XmlIndent"} {
		if enc == "XmlIndent" && cfg.KeepSpaces {
			continue // (the indentation is white space between elements, which "not trimmed" may well keep: not a symmetric combination)
		}
		var x []byte
		if enc == "Xml" {
			x, err = m1.Xml()
		} else {
			x, err = m1.XmlIndent(prefix, indent)
		}
		d := core.D{"config": cfg.String(), "doc": string(doc), "encoder": enc, "indent": indent, "prefix": prefix, "map": jv.Show(m1), "xml": string(x)}
		if err != nil {
			d["err"] = err.Error()
			c.Violate("c02-encode-error", enc+" failed on a decoded Map", d)
			continue
		}
		keep(c, "Map."+enc, x)
		if werr := xt.WellFormed(x); werr != nil {
			d["err"] = werr.Error()
			c.Violate("c02-illformed", enc+" output is not a well-formed single-root document", d)
			continue
		}
		m2, derr := mxj.NewMapXml(x, cfg.Cast)
		if derr != nil || jv.Fp(m2) != fp1 {
			d["err"] = fmt.Sprint(derr)
			d["first_difference(m1 vs m2)"] = jv.Diff(m1, m2)
			c.Violate("c02-fixedpoint", "decoding the output of "+enc+" does not give back the Map", d)
			continue
		}
		out, roots, perr := xt.Parse(x, true)
		if perr != nil || roots != 1 {
			d["err"] = fmt.Sprint(perr, " roots=", roots)
			c.Violate("c02-illformed", enc+" output could not be parsed by the observer", d)
			continue
		}
		if oc := cfg.canonOut(out); oc != srcCanon && !split {
			d["source_canon"], d["output_canon"] = srcCanon, oc
			c.Violate("c02-conservation", enc+": an element, attribute, value or list membership was lost, duplicated or moved", d)
		}
	}
}
