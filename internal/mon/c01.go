package mon

import (
	"bytes"
	"encoding/base64"
	"encoding/json"
	"fmt"
	"io"
	"os"
	"os/exec"
	"strings"

	mxj "github.com/clbanning/mxj/v2"
	"github.com/clbanning/mxj/v2/x2j"

	"verif/internal/core"
	"verif/internal/jv"
	"verif/internal/xt"
)

// C01 - reference-model monitor: NewMapXml & co. vs RefDecode over generated
// documents x option configurations.
type c01 struct{}

func init() { register(c01{}) }

func (c01) Meta() core.Meta {
	return core.Meta{
		ID: "C01", Level: "exploration",
		Rule:        "case i = f(seed,i): option configuration (attr prefix x key prefix x lower x snake x simple-as-map x keep-spaces x tag-seq-num x decoder-escape x cast flags) + generated XTree (names from a colliding alphabet, depth<=6, wide mode >32 kids, attrs, one text run in any position) rendered with syntactic variety (quotes, empty-element forms, CDATA vs references, inter-element whitespace, prolog); decoded through NewMapXml / NewMapXmlReader (ByteReader and plain Reader) / NewMapXmlReaderRaw / x2j.XmlToMap and compared with the reference decode. Non-trivial: depth>=2 and at least one of {repeat, interleaved repeat, attribute, text beside attrs/children, ns prefix}; distinct by hash(document bytes, config).",
		Assumptions: []string{"encoding/xml tokenizer is the definition of well-formed", "reference decode written from the documentation (DESIGN 3.3)", "documents outside the stated domain (reserved-key names, attribute/child key clash under a non-empty prefix) are skipped and counted"},
		Anchors:     []string{"xmlToMapParser", "NewMapXml", "NewMapXmlReader", "NewMapXmlReaderRaw", "cast", "x2j.XmlToMap"},
		Floors:      map[string]int64{"feature:interleaved": 50, "feature:wide": 5, "cfg:emptyAttrPrefix": 20, "cfg:seqnum": 20, "cfg:decesc": 20, "cfg:cast": 100, "feature:cdata-or-ref": 100},
		SetFloors:   map[string]int64{"configs": 100},
	}
}

func (c01) Cases(tier string, race bool) int {
	if race {
		return 0
	}
	if tier == "thorough" {
		return 600000
	}
	return 40000
}

// (AttrCollide: p:id and q:id are different attributes with the same key; the later one is the entry of the Map)
var c01gen = xt.GenCfg{Names: xt.DefNames, Prefixes: xt.DefPrefixes, Texts: xt.DefTexts, MaxKids: 4, MaxAttrs: 4, WideProb: 40, AttrCollide: true}

// plainReader hides ReadByte so NewMapXmlReader must wrap it.
type plainReader struct{ r io.Reader }

func (p plainReader) Read(b []byte) (int, error) { return p.r.Read(b) }

func (c01) Case(c *core.Ctx) {
	r := c.R
	if c.Index%1500 == 11 {
		c01multiCharPrefix(c)
	}
	cfg := GenCfg(r, true, true)
	g := c01gen
	root := g.Gen(r, r.Intn(6))
	if cfg.usesReserved(root) || cfg.keyClash(root) {
		c.Count("skipped:outside-domain")
		return
	}
	cfg.scopeKeepSpaces(root)
	doc := append([]byte(xt.Prolog(r)), xt.Render(r, root, xt.Style{KeepSpaces: cfg.KeepSpaces, NoWS: cfg.KeepSpaces})...)
	if r.Intn(4) == 0 {
		doc = append(doc, []string{"\n", " ", "<!-- tail -->", "\n<next/>"}[r.Intn(4)]...)
	}
	want0 := cfg.RefDecode(root)

	cfg.Apply()
	defer ResetDefaults()
	c.Eval()
	failedCalls(c, 8)
	c.Distinct("configs", core.HashStr(cfg.String()))
	f := root.Features()
	if f.Interleaved {
		c.Count("feature:interleaved")
	}
	if f.Repeat {
		c.Count("feature:repeat")
	}
	if f.Wide {
		c.Count("feature:wide")
	}
	if f.MixedText {
		c.Count("feature:text-beside")
	}
	if f.NSPrefix {
		c.Count("feature:nsprefix")
	}
	if bytes.Contains(doc, []byte("<![CDATA[")) || bytes.Contains(doc, []byte("&#")) {
		c.Count("feature:cdata-or-ref")
	}
	if cfg.AttrPrefix == "" {
		c.Count("cfg:emptyAttrPrefix")
	}
	if cfg.SeqNum {
		c.Count("cfg:seqnum")
	}
	if cfg.DecEsc {
		c.Count("cfg:decesc")
	}
	if cfg.Cast {
		c.Count("cfg:cast")
	}
	if cfg.Lower || cfg.Snake {
		c.Count("cfg:fold")
	}
	if cfg.KeepSpaces {
		c.Count("cfg:keepspaces")
	}
	if root.Depth() >= 2 && (f.Repeat || f.Attr || f.MixedText || f.NSPrefix) {
		c.NonTrivial(string(doc), cfg.String())
	}
	if c.WantSample() && root.Depth() >= 1 && len(doc) < 300 {
		c.Sample(core.D{"config": cfg.String(), "doc": string(doc), "expected": jv.Show(resolveAlts(want0, nil))})
	}

	check := func(api string, got map[string]interface{}, err error) {
		c.Count("api:" + api)
		if err != nil {
			c.Violate("c01-decode-error", api+" returned an error on a well-formed document", core.D{"api": api, "config": cfg.String(), "doc": string(doc), "err": err.Error()})
			return
		}
		want := resolveAlts(want0, got).(map[string]interface{})
		if jv.Fp(got) != jv.Fp(want) {
			c.Violate(c01class(cfg, root, want, got), api+" result differs from the documented conventions", core.D{"api": api, "config": cfg.String(), "doc": string(doc), "first_difference(expected vs observed)": jv.Diff(want, got), "expected": jv.Show(want), "observed": jv.Show(got)})
		}
	}
	m, err := mxj.NewMapXml(doc, cfg.Cast)
	check("NewMapXml", m, err)
	m, err = mxj.NewMapXmlReader(bytes.NewReader(doc), cfg.Cast)
	check("NewMapXmlReader/ByteReader", m, err)
	m, err = mxj.NewMapXmlReader(plainReader{bytes.NewReader(doc)}, cfg.Cast)
	check("NewMapXmlReader/Reader", m, err)
	m, raw, err := mxj.NewMapXmlReaderRaw(plainReader{bytes.NewReader(doc)}, cfg.Cast)
	check("NewMapXmlReaderRaw", m, err)
	if err == nil && !bytes.HasPrefix(doc, raw) {
		c.Violate("c01-raw-not-prefix", "NewMapXmlReaderRaw raw bytes are not a prefix of the input", core.D{"doc": string(doc), "raw": string(raw)})
	}
	if !cfg.Cast {
		mm, e := x2j.XmlToMap(doc)
		check("x2j.XmlToMap", mm, e)
	}
	// single-option transition: flip ONE option through its own setter only and decode the same
	// document again - the result must follow the new configuration (no state left over from the first decode)
	cfg2 := cfg
	flip := ""
	switch r.Intn(7) {
	case 0:
		cfg2.Snake = !cfg.Snake
		mxj.CoerceKeysToSnakeCase(cfg2.Snake)
		flip = "CoerceKeysToSnakeCase"
	case 1:
		cfg2.Lower = !cfg.Lower
		mxj.CoerceKeysToLower(cfg2.Lower)
		flip = "CoerceKeysToLower"
	case 2:
		cfg2.SimpleAsMap = !cfg.SimpleAsMap
		mxj.DecodeSimpleValuesAsMap(cfg2.SimpleAsMap)
		flip = "DecodeSimpleValuesAsMap"
	case 3:
		cfg2.DecEsc = !cfg.DecEsc
		mxj.XMLEscapeCharsDecoder(cfg2.DecEsc)
		flip = "XMLEscapeCharsDecoder"
	case 4:
		cfg2.SeqNum = !cfg.SeqNum
		mxj.IncludeTagSeqNum(cfg2.SeqNum)
		flip = "IncludeTagSeqNum"
	case 5:
		cfg2.AttrPrefix = attrPrefixes[r.Intn(len(attrPrefixes))]
		if cfg2.AttrPrefix == cfg2.KeyPrefix {
			cfg2.AttrPrefix = "-"
		}
		mxj.SetAttrPrefix(cfg2.AttrPrefix)
		flip = "SetAttrPrefix"
	default:
		cfg2.CastInt = !cfg.CastInt
		mxj.CastValuesToInt(cfg2.CastInt)
		flip = "CastValuesToInt"
	}
	if cfg2.usesReserved(root) || cfg2.keyClash(root) {
		return
	}
	c.Count("transition:" + flip)
	cfg, want0 = cfg2, cfg2.RefDecode(root)
	m, err = mxj.NewMapXml(doc, cfg.Cast)
	check("NewMapXml after "+flip, m, err)
}

// C01Child: fresh process; sets the global key prefix ONCE (a prefix of more than one character cannot be changed back by
// the setter - it replaces every occurrence of the old first character -, so such prefixes are only ever used in a process of
// their own) and decodes the document.
func C01Child(prefix64, b64 string) {
	pb, _ := base64.StdEncoding.DecodeString(prefix64)
	prefix := string(pb)
	doc, _ := base64.StdEncoding.DecodeString(b64)
	mxj.SetGlobalKeyMapPrefix(prefix)
	m, err := mxj.NewMapXml(doc)
	ms, err2 := mxj.NewMapXmlSeq(doc)
	b, _ := json.Marshal(map[string]interface{}{"map": jv.Fp(m), "err": fmt.Sprint(err), "seq_has_text_key": strings.Contains(jv.Fp(ms), prefix+"text"), "seq_err": fmt.Sprint(err2),
		"snapshot_textK": mxj.VerifOptionSnapshot()["textK"]})
	fmt.Println("C01CHILD " + string(b))
}

func c01multiCharPrefix(c *core.Ctx) {
	r := c.R
	prefix := []string{"__", "#!", "%%", "~~~~~~", "#_#", "::"}[r.Intn(6)]
	cfg := DefaultCfg()
	cfg.KeyPrefix = prefix
	var root *xt.Node
	for i := 0; i < 40; i++ {
		root = c01gen.Gen(r, 1+r.Intn(3))
		if f := root.Features(); f.MixedText && !cfg.usesReserved(root) && !cfg.keyClash(root) {
			break
		}
		root = nil
	}
	if root == nil {
		return
	}
	doc := xt.Render(r, root, xt.Style{})
	self, err := os.Executable()
	if err != nil {
		c.Harness("c01: " + err.Error())
		return
	}
	out, err := exec.Command(self, "-c01child", base64.StdEncoding.EncodeToString([]byte(prefix))+"."+base64.StdEncoding.EncodeToString(doc)).Output()
	i := strings.Index(string(out), "C01CHILD ")
	if err != nil || i < 0 {
		c.Violate("c01-keyprefix-child-failed", "decoding under a multi-character global key prefix in a fresh process failed (panic?)", core.D{"prefix": prefix, "doc": string(doc), "err": fmt.Sprint(err), "output": string(out)})
		return
	}
	var res map[string]interface{}
	json.Unmarshal([]byte(strings.TrimSpace(string(out)[i+9:])), &res)
	c.Count("multi-char-key-prefix(fresh process)")
	c.Eval()
	want := jv.Fp(mxj.Map(resolveAlts(cfg.RefDecode(root), nil).(map[string]interface{})))
	if res["map"] != want || res["snapshot_textK"] != prefix+"text" || res["seq_has_text_key"] != true {
		c.Violate("c01-keyprefix-multichar", "under a multi-character global key prefix the decoder does not use prefix+\"text\" etc.", core.D{"prefix": prefix, "doc": string(doc), "expected_map": want, "child": res})
	}
}

// c01class names the deviation shape so that a known finding can be matched by
// classifier, not by input.
func c01class(cfg Cfg, root *xt.Node, want, got interface{}) string {
	// cast deviations on NaN/Inf spellings (C14's business too): leaf-only difference
	if cfg.Cast && sameShape(want, got) {
		onlyNanInf := true
		diffLeaves(want, got, func(w, g interface{}) {
			ws, ok := w.(string)
			if !ok || !IsNanInfSpelling(ws) {
				onlyNanInf = false
			}
		})
		if onlyNanInf {
			return "c01-cast-naninf-spelling"
		}
		return "c01-cast-leaf"
	}
	_ = strings.TrimSpace
	return "c01-structure"
}

func sameShape(a, b interface{}) bool {
	switch x := a.(type) {
	case map[string]interface{}:
		y, ok := b.(map[string]interface{})
		if !ok {
			if ym, ok2 := b.(mxj.Map); ok2 {
				y = ym
			} else {
				return false
			}
		}
		if len(x) != len(y) {
			return false
		}
		for k, v := range x {
			w, ok := y[k]
			if !ok || !sameShape(v, w) {
				return false
			}
		}
		return true
	case []interface{}:
		y, ok := b.([]interface{})
		if !ok || len(x) != len(y) {
			return false
		}
		for i := range x {
			if !sameShape(x[i], y[i]) {
				return false
			}
		}
		return true
	default:
		switch b.(type) {
		case map[string]interface{}, []interface{}, mxj.Map:
			return false
		}
		return true
	}
}

func diffLeaves(a, b interface{}, f func(w, g interface{})) {
	switch x := a.(type) {
	case map[string]interface{}:
		y, ok := b.(map[string]interface{})
		if !ok {
			y = b.(mxj.Map)
		}
		for k, v := range x {
			diffLeaves(v, y[k], f)
		}
	case []interface{}:
		y := b.([]interface{})
		for i := range x {
			diffLeaves(x[i], y[i], f)
		}
	default:
		if jv.Fp(a) != jv.Fp(b) {
			f(a, b)
		}
	}
}
