#!/bin/bash
# usage: tools/run_all.sh [tier] [seed]  -- runs every check, prints one summary line per check
tier=${1:-quick}; seed=${2:-1}
cd /verif
for i in $(seq -w 1 20); do
  VERIF_SEED=$seed ./bin/mxjcheck run C$i --tier $tier > .build/last-C$i.log 2>&1; rc=$?
  echo "C$i rc=$rc $(grep -E 'verdict=' .build/last-C$i.log | tail -1)"
  grep -E '^(VIOLATION|INCONCLUSIVE|HARNESS)' .build/last-C$i.log | head -3
done
