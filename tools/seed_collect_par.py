#!/usr/bin/env python3
# Parallel variant of seed_collect.py: verifies every delivered change (seed_verify.sh, own scratch worktree each) and runs
# the owning quick check against it in N scratch copies of /verif + worktrees of /repo under /tmp/collect (like
# seed_recheck.sh), so /repo and /verif themselves are not touched. Kept changes go to /verif/seeded/<id>/.
# usage: tools/seed_collect_par.py <src dir> <two letters> [N] [only ids, e.g. C03 C07]
import json, os, re, shutil, subprocess, sys, concurrent.futures as cf
SRC = sys.argv[1]; LETTERS = sys.argv[2]; N = int(sys.argv[3]) if len(sys.argv) > 3 else 6
ONLY = set(sys.argv[4:])
OWNER_OVERRIDE = json.load(open("/verif/tools/owner_override.json")) if os.path.exists("/verif/tools/owner_override.json") else {}
ENV = dict(os.environ, GOFLAGS="-mod=mod", GOPROXY="off", GOSUMDB="off", GOTOOLCHAIN="local")
head = subprocess.check_output(["git", "-C", "/repo", "rev-parse", "--short", "HEAD"]).decode().strip()
base = "/tmp/collect"
shutil.rmtree(base, ignore_errors=True); os.makedirs(base)
subprocess.run(["git", "-C", "/repo", "worktree", "prune"])
for k in range(N):
    d = "%s/%d" % (base, k); os.makedirs(d)
    subprocess.check_call(["git", "-C", "/repo", "worktree", "add", "-q", "--detach", d + "/repo", "HEAD"])
    subprocess.check_call(["rsync", "-a", "--exclude", ".build", "--exclude", "evidence", "--exclude", "replays", "--exclude", ".git", "--exclude", "seeded", "--exclude", "bin", "--exclude", "benign", "/verif/", d + "/verif/"])
    subprocess.check_call(["sed", "-i", "s|=> /repo|=> %s/repo|" % d, d + "/verif/go.mod"])
    subprocess.check_call("mkdir -p bin && go build -o bin/mxjcheck ./cmd/mxjcheck", shell=True, cwd=d + "/verif", env=ENV)
jobs = []
for i in range(1, 21):
    pid = "C%02d" % i
    if ONLY and pid not in ONLY: continue
    for k, outk in zip("AB", LETTERS):
        src = "%s/%s" % (SRC, pid)
        patch = "%s/patch%s.diff" % (src, k)
        if os.path.exists(patch) and os.path.exists("%s/demo%s_test.go" % (src, k)):
            jobs.append((pid, k, outk, src, patch))
def work(arg):
    slot, (pid, k, outk, src, patch) = arg
    d = "%s/%d" % (base, slot)
    name = "%s-%s" % (pid, outk)
    v = subprocess.run(["/verif/tools/seed_verify.sh", pid, k, patch, src], capture_output=True, text=True).stdout.strip().splitlines()
    v = [l for l in v if l.startswith(pid)]
    vline = v[-1] if v else "NO OUTPUT"
    ok = ("demo-clean=[ok" in vline) and ("suite-ok-pkgs=3" in vline) and ("FAIL" in vline.split("demo-patched=")[-1])
    check = OWNER_OVERRIDE.get(name, pid)
    a = subprocess.run(["git", "apply", patch], cwd=d + "/repo", capture_output=True, text=True)
    if a.returncode != 0:
        return (name, False, False, [], "PATCH-DOES-NOT-APPLY", check, (pid, k, outk, src, patch))
    t = subprocess.run(["./bin/mxjcheck", "run", check, "--tier", "quick"], cwd=d + "/verif", capture_output=True, text=True, env=ENV)
    subprocess.run(["git", "checkout", "-q", "--", "."], cwd=d + "/repo")
    out = t.stdout + t.stderr
    classes = re.findall(r"class=(\S+) occurrences=(\d+)", out)
    detected = t.returncode == 1 and ("VIOLATION property=%s" % check) in out
    return (name, ok, detected, classes, vline, check, (pid, k, outk, src, patch))
results = []
# one job at a time per slot
def run_slot(slot):
    out = []
    for j in jobs[slot::N]:
        out.append(work((slot, j)))
        print(out[-1][0], "verified=%s detected=%s" % (out[-1][1], out[-1][2]), [c for c, _ in out[-1][3]][:3], flush=True)
    return out
with cf.ThreadPoolExecutor(N) as ex:
    for r in ex.map(run_slot, range(N)):
        results += r
rows = []
for name, ok, detected, classes, vline, check, (pid, k, outk, src, patch) in sorted(results):
    rows.append({"id": name, "verified": ok, "detected": detected, "classes": [c for c, _ in classes]})
    if not ok:
        print(name, "NOT KEPT (verification failed):", vline); continue
    d = "/verif/seeded/%s" % name
    os.makedirs(d, exist_ok=True)
    shutil.copy(patch, d + "/patch.diff")
    demo = "%s/demo%s_test.go" % (src, k)
    shutil.copy(demo, d + "/demo_test.go.txt")
    notes = open("%s/notes%s.md" % (src, k)).read() if os.path.exists("%s/notes%s.md" % (src, k)) else ""
    ddir = (re.match(r"// dir: *(\S+)", open(demo).readline()) or [None, "."])[1]
    meta = {
        "id": name, "property": pid,
        "origin": "independent sub-agent given only the property text and a scratch worktree of /repo (nothing from /verif)",
        "patch_applies_to_repo_commit": head, "rebased_onto_fix_commits": False,
        "what_it_needs_to_manifest": notes.strip(),
        "demonstration": {"file": "demo_test.go.txt (copy as <name>_test.go)", "copy_into_package_dir": ddir, "passes_on_clean_tree": True, "fails_with_patch": True},
        "what_was_run": ["tools/seed_verify.sh %s %s (scratch worktree: git apply; go test -vet=off -count=1 . ./j2x ./x2j ./x2j-wrapper -> 3 packages ok; demonstration test clean: ok, patched: FAIL)" % (pid, k),
                         "scratch copy of /verif + worktree of /repo (tools/seed_collect_par.py): git apply patch.diff; ./bin/mxjcheck run %s --tier quick (VERIF_SEED=1); git checkout -- ." % check],
        "detected_by_check": check if detected else None,
        "violation_classes_reported": [{"class": c, "occurrences": int(n)} for c, n in classes],
    }
    json.dump(meta, open(d + "/meta.json", "w"), indent=1)
sp = "/verif/seeded/SUMMARY-%s.json" % LETTERS
prev = {r["id"]: r for r in (json.load(open(sp)) if os.path.exists(sp) else [])}
prev.update({r["id"]: r for r in rows})
json.dump([prev[k] for k in sorted(prev)], open(sp, "w"), indent=1)
for k in range(N):
    subprocess.run(["git", "-C", "/repo", "worktree", "remove", "--force", "%s/%d/repo" % (base, k)])
subprocess.run(["git", "-C", "/repo", "worktree", "prune"]); shutil.rmtree(base, ignore_errors=True)
print("kept:", sum(1 for r in rows if r["verified"]), "detected:", sum(1 for r in rows if r["verified"] and r["detected"]), "missed:", [r["id"] for r in rows if r["verified"] and not r["detected"]])
