package mon

import (
	"unicode/utf8"
	"math/rand"
	"sort"
	"strconv"
	"strings"
)

// ---------- reference model: what a dot / wildcard / indexed path denotes (C07) ----------

type seg struct {
	name string
	idx  int // -1: not indexed
}

func pathString(segs []seg) string {
	parts := make([]string, len(segs))
	for i, s := range segs {
		parts[i] = s.name
		if s.idx >= 0 {
			parts[i] += "[" + strconv.Itoa(s.idx) + "]"
		}
	}
	return strings.Join(parts, ".")
}

// hostileKeys: keys that look like something else - list subscripts, names with white space at an edge (and their
// trimmed twins), a path-like separator, reserved-looking names.
var hostileKeys = []string{"a", "b", "k", "0", "1", "10", "k ", " k", "a/b", "b/c", "#attr", "_seq", "caf\xe9", "\xffk"}

// jsonSafeKeys: every key is valid UTF-8 (encoding/json replaces invalid bytes: the JSON-text wrappers are then not comparable).
func jsonSafeKeys(v interface{}) bool {
	switch t := v.(type) {
	case map[string]interface{}:
		for k, e := range t {
			if !utf8.ValidString(k) || !jsonSafeKeys(e) {
				return false
			}
		}
	case []interface{}:
		for _, e := range t {
			if !jsonSafeKeys(e) {
				return false
			}
		}
	}
	return true
}

// keyAlphabet returns base, or (one case in four) the hostile alphabet.
func keyAlphabet(r *rand.Rand, base []string) []string {
	switch x := r.Intn(8); {
	case x < 2:
		return hostileKeys
	case x == 2 && len(auto.Keys) > 0:
		// a few ordinary keys plus literals of the tree under test
		return append(append([]string{}, base[:3]...), autoKeys(r, 5)...)
	}
	return base
}

// pathStringR is pathString with, now and then, a zero-padded (still decimal) subscript.
func pathStringR(r *rand.Rand, segs []seg) string {
	parts := make([]string, len(segs))
	for i, s := range segs {
		parts[i] = s.name
		if s.idx >= 0 {
			switch r.Intn(8) {
			case 0:
				parts[i] += "[0" + strconv.Itoa(s.idx) + "]"
			case 1:
				parts[i] += "[00" + strconv.Itoa(s.idx) + "]"
			default:
				parts[i] += "[" + strconv.Itoa(s.idx) + "]"
			}
		}
	}
	return strings.Join(parts, ".")
}

func hasWildcard(segs []seg) bool {
	for _, s := range segs {
		if s.name == "*" {
			return true
		}
	}
	return false
}

func numIndexed(segs []seg) int {
	n := 0
	for _, s := range segs {
		if s.idx >= 0 {
			n++
		}
	}
	return n
}

func sortedKeys(m map[string]interface{}) []string {
	ks := make([]string, 0, len(m))
	for k := range m {
		ks = append(ks, k)
	}
	sort.Strings(ks)
	return ks
}

// refPlain walks plain/wildcard segments with list transparency and expands a final list one level.
// Wildcard enumeration order is by sorted key (compared as a multiset by the monitor).
func refPlain(node interface{}, segs []seg) []interface{} {
	if len(segs) == 0 {
		if l, ok := node.([]interface{}); ok {
			return append([]interface{}{}, l...)
		}
		return []interface{}{node}
	}
	s := segs[0]
	var out []interface{}
	step := func(m map[string]interface{}) {
		if s.name == "*" {
			for _, k := range sortedKeys(m) {
				out = append(out, refPlain(m[k], segs[1:])...)
			}
		} else if v, ok := m[s.name]; ok {
			out = append(out, refPlain(v, segs[1:])...)
		}
	}
	switch n := node.(type) {
	case map[string]interface{}:
		step(n)
	case []interface{}:
		for _, e := range n {
			if m, ok := e.(map[string]interface{}); ok {
				step(m)
			} else if s.name == "*" {
				// scalar list members themselves
				out = append(out, refPlain(e, segs[1:])...)
			}
		}
	}
	return out
}

// refEval: for each parent the i-th of the values k alone would yield.
func refEval(m map[string]interface{}, segs []seg) []interface{} {
	j := -1
	for i, s := range segs {
		if s.idx >= 0 {
			j = i
			break
		}
	}
	if j < 0 {
		return refPlain(m, segs)
	}
	var parents []map[string]interface{}
	if j == 0 {
		parents = []map[string]interface{}{m}
	} else {
		for _, v := range refPlain(m, segs[:j]) {
			if pm, ok := v.(map[string]interface{}); ok {
				parents = append(parents, pm)
			}
		}
	}
	var out []interface{}
	for _, p := range parents {
		vals := refPlain(p, []seg{{segs[j].name, -1}})
		if segs[j].idx >= len(vals) {
			continue
		}
		x := vals[segs[j].idx]
		if j == len(segs)-1 {
			out = append(out, x)
		} else if xm, ok := x.(map[string]interface{}); ok {
			out = append(out, refEval(xm, segs[j+1:])...)
		}
	}
	return out
}

// genPath derives a path from the structure of m so that most paths match something:
// real key chains with segments replaced by '*', indexes inserted (in and out of range),
// list levels skipped, truncated or extended past a scalar. indexOnWild is never produced.
func genPath(r *rand.Rand, m interface{}, keyPool []string, allowIdx, allowWild bool) []seg {
	var segs []seg
	cur := m
	n := 1 + r.Intn(7)
	for i := 0; i < n; i++ {
		for {
			l, ok := cur.([]interface{})
			if !ok || len(l) == 0 {
				break
			}
			cur = l[r.Intn(len(l))]
		}
		mm, ok := cur.(map[string]interface{})
		name := keyPool[r.Intn(len(keyPool))]
		if ok && len(mm) > 0 && r.Intn(14) != 0 {
			ks := sortedKeys(mm)
			name = ks[r.Intn(len(ks))]
			cur = mm[name]
		} else {
			cur = nil
		}
		s := seg{name, -1}
		if allowWild && r.Intn(7) == 0 {
			s.name = "*"
		} else if allowIdx && r.Intn(3) == 0 {
			s.idx = 0
			if r.Intn(4) == 0 {
				s.idx = 1 + r.Intn(2)
			}
			if l, ok := cur.([]interface{}); ok && len(l) > 0 && r.Intn(4) != 0 {
				s.idx = r.Intn(len(l))
				cur = l[s.idx]
			} else if r.Intn(10) == 0 {
				s.idx = 40 + r.Intn(100)
			}
		}
		segs = append(segs, s)
		if cur == nil && r.Intn(3) != 0 {
			break
		}
		if _, isM := cur.(map[string]interface{}); !isM {
			if _, isL := cur.([]interface{}); !isL && r.Intn(4) != 0 {
				break // reached a scalar: usually stop here
			}
		}
	}
	return segs
}
