module verif

go 1.23

require github.com/clbanning/mxj/v2 v2.7.0

replace github.com/clbanning/mxj/v2 => /repo
