package mon

import (
	"fmt"
	"math"
	"math/rand"
	"strconv"
	"strings"

	mxj "github.com/clbanning/mxj/v2"

	"verif/internal/core"
	"verif/internal/jv"
)

// C08 - key search, paths for key, cross-API conservation, sub-key filter law.
type c08 struct{}

func init() { register(c08{}) }

func (c08) Meta() core.Meta {
	return core.Meta{
		ID: "C08", Level: "exploration",
		Rule:        "case i = f(seed,i): JSON/XML-shaped Map over a 7-key alphabet - in 1/4 of the cases the hostile alphabet (digit strings, blank-edged names beside their twins, names with '/', '#attr', '_seq') - (keys recur at several depths, inside lists, beside themselves; a list directly inside a list with low probability) + a key (present/absent/'*') + 0..3 sub-key conditions drawn from real sibling keys and values (string/num/bool typed, '*' wildcard, '!' negation; numeric conditions on real sibling values or on near misses of them - next representable float, +-1e-10 -; default ':' and alternative '|' separator). Monitors: ValuesForKey == reference search (multiset); PathsForKey == reference path set, no duplicates; PathForKeyShortest minimal; union over paths of ValuesForPath == ValuesForKey (conservation); filter law result(S) == {v in result(∅): map ∧ pred_S(v)} for ValuesForKey and ValuesForPath, with a three-valued predicate (negated condition on an absent key is unspecified). Non-trivial: unfiltered result non-empty; distinct by hash(map,key,conditions).",
		Assumptions: []string{"reference search / predicate written from the documentation", "a negated typed condition on an absent key is treated as unspecified (docs silent)"},
		Anchors:     []string{"Map.ValuesForKey", "hasKey", "Map.ValueForKey", "Map.PathsForKey", "Map.PathForKeyShortest", "hasKeyPath", "hasSubKeys", "getSubKeyMap", "SetFieldSeparator"},
		Floors:      map[string]int64{"key-at-2+-depths": 300, "filter:nonempty-unfiltered": 1000, "filter:some-pass-some-fail": 100, "cond:neg": 300, "cond:wild": 300, "cond:typed": 300, "altsep": 300, "paths>=2": 300, "crossapi:checked": 10000},
	}
}

func (c08) Cases(tier string, race bool) int {
	if race {
		return 0
	}
	if tier == "thorough" {
		return 1000000
	}
	return 40000
}

func c08scalar(r *rand.Rand) interface{} {
	switch r.Intn(5) {
	case 0:
		if r.Intn(3) == 0 {
			return []float64{0.1, 19.99, 16777217, 1e-7, 2.5, 5e-324, 1e-12, 0.3, 0.30000000000000004, 0, math.Copysign(0, -1), math.Copysign(0, -1)}[r.Intn(12)] // not all exactly representable in 32 bits; some closer than any tolerance
		}
		return float64(r.Intn(3))
	case 1:
		return r.Intn(2) == 0
	default:
		return []string{"x", "y", "z", "x:y", "1", "true"}[r.Intn(6)]
	}
}

// reference key search: every value stored under key k at any depth, a list value expanded one level
func refKeySearch(v interface{}, k string, out *[]interface{}) {
	switch t := v.(type) {
	case map[string]interface{}:
		for _, kk := range sortedKeys(t) {
			e := t[kk]
			if kk == k || k == "*" {
				if l, ok := e.([]interface{}); ok {
					*out = append(*out, l...)
				} else {
					*out = append(*out, e)
				}
			}
			refKeySearch(e, k, out)
		}
	case []interface{}:
		for _, e := range t {
			refKeySearch(e, k, out)
		}
	}
}

func refPathsForKey(v interface{}, crumb string, k string, out map[string]bool) {
	switch t := v.(type) {
	case map[string]interface{}:
		for kk, e := range t {
			p := kk
			if crumb != "" {
				p = crumb + "." + kk
			}
			if kk == k {
				out[p] = true
			}
			refPathsForKey(e, p, k, out)
		}
	case []interface{}:
		for _, e := range t {
			refPathsForKey(e, crumb, k, out)
		}
	}
}

// keyUnderNestedList: some occurrence of key k lies at or below a list that is a direct member of a list.
func keyUnderNestedList(v interface{}, k string, under bool) bool {
	switch t := v.(type) {
	case map[string]interface{}:
		for kk, e := range t {
			if kk == k && under {
				return true
			}
			if keyUnderNestedList(e, k, under) {
				return true
			}
		}
	case []interface{}:
		for _, e := range t {
			_, nested := e.([]interface{})
			if keyUnderNestedList(e, k, under || nested) {
				return true
			}
		}
	}
	return false
}

type cond struct {
	neg  bool
	key  string
	val  interface{}
	wild bool
}

// evalCond: 1 true, 0 false, -1 unspecified.
func evalCond(m map[string]interface{}, c cond) int {
	v, has := m[c.key]
	if c.wild {
		if has != c.neg {
			return 1
		}
		return 0
	}
	if !has {
		if c.neg {
			return -1 // docs silent on a negated key:value for an absent key
		}
		return 0
	}
	eq := false
	switch cv := c.val.(type) {
	case string:
		s, ok := v.(string)
		eq = ok && s == cv
	case float64:
		f, ok := v.(float64)
		eq = ok && f == cv
	case bool:
		b, ok := v.(bool)
		eq = ok && b == cv
	}
	if c.neg {
		eq = !eq
	}
	if eq {
		return 1
	}
	return 0
}

func genConds(r *rand.Rand, sep string, sample []interface{}) ([]cond, []string) {
	nc := 1 + r.Intn(3)
	var conds []cond
	var specs []string
	seen := map[string]bool{}
	// sibling keys/values from a real candidate, so that conditions often hold
	var sib map[string]interface{}
	for _, v := range sample {
		if m, ok := v.(map[string]interface{}); ok && len(m) > 0 {
			sib = m
			if r.Intn(2) == 0 {
				break
			}
		}
	}
	for j := 0; j < nc; j++ {
		c := cond{neg: r.Intn(3) == 0, key: c07keys[r.Intn(len(c07keys))]}
		var real interface{}
		if sib != nil && r.Intn(3) != 0 {
			ks := sortedKeys(sib)
			c.key = ks[r.Intn(len(ks))]
			real = sib[c.key]
		}
		if c.key == "" {
			c.key, real = c07keys[r.Intn(len(c07keys))], nil // a condition on the empty key has no spelling the documentation defines
		}
		id := fmt.Sprint(c.neg, c.key)
		if seen[id] {
			continue
		}
		seen[id] = true
		spec := c.key
		if c.neg {
			spec = "!" + spec
		}
		choice := r.Intn(4)
		if real != nil && r.Intn(2) == 0 {
			switch real.(type) {
			case float64:
				choice = 1
			case bool:
				choice = 2
			case string:
				choice = 3
			}
		}
		switch choice {
		case 0:
			c.wild = true
			spec += sep + "*"
		case 1:
			f := float64(r.Intn(3))
			if r.Intn(4) == 0 {
				f = []float64{0.1, 19.99, 16777217, 16777216, 2.5}[r.Intn(5)]
			}
			if rf, ok := real.(float64); ok && r.Intn(3) != 0 {
				f = rf
				if r.Intn(4) == 0 {
					// near miss: a different number closer to the real one than any tolerance
					f = []float64{math.Nextafter(rf, math.Inf(1)), math.Nextafter(rf, math.Inf(-1)), rf + 1e-10, rf - 3e-12}[r.Intn(4)]
				}
				if rf == 0 && r.Intn(2) == 0 {
					f = -rf // 0 and -0 are the same number
				}
			}
			c.val = f
			spec += sep + strconv.FormatFloat(f, 'g', -1, 64) + sep + []string{"num", "float", "number", "numeric", "float64"}[r.Intn(5)]
		case 2:
			b := r.Intn(2) == 0
			if rb, ok := real.(bool); ok && r.Intn(3) != 0 {
				b = rb
			}
			c.val = b
			spec += sep + strconv.FormatBool(b) + sep + []string{"bool", "boolean"}[r.Intn(2)]
		default:
			s := []string{"x", "y", "z"}[r.Intn(3)]
			if rs, ok := real.(string); ok && r.Intn(3) != 0 {
				s = rs
			}
			if strings.Contains(s, sep) || s == "*" {
				s = "x"
			}
			c.val = s
			spec += sep + s
			if r.Intn(3) == 0 {
				spec += sep + []string{"string", "char", "text"}[r.Intn(3)]
			}
		}
		conds = append(conds, c)
		specs = append(specs, spec)
	}
	return conds, specs
}

// checkFilterLaw: got must lie between the must-include and may-include multisets derived from the unfiltered result.
func checkFilterLaw(unfiltered, got []interface{}, conds []cond) (ok bool, nPass, nFail int) {
	may := map[string]int{}
	must := map[string]int{}
	for _, v := range unfiltered {
		mm, isMap := v.(map[string]interface{})
		if !isMap {
			nFail++
			continue
		}
		all1, any0 := true, false
		for _, c := range conds {
			switch evalCond(mm, c) {
			case 0:
				any0, all1 = true, false
			case -1:
				all1 = false
			}
		}
		if any0 {
			nFail++
			continue
		}
		f := jv.Fp(v)
		may[f]++
		if all1 {
			must[f]++
			nPass++
		}
	}
	gotc := map[string]int{}
	for _, v := range got {
		gotc[jv.Fp(v)]++
	}
	ok = true
	for s, n := range gotc {
		if n > may[s] {
			ok = false
		}
	}
	for s, n := range must {
		if gotc[s] < n {
			ok = false
		}
	}
	return
}

// c08collidingSpecs: two sub-key argument lists (and, in the second half, two separator settings) whose TEXTS coincide when
// joined with some string J - blank, comma, nothing ... - although they mean different conditions. Each query is judged
// against hand-computed members; whatever the library remembers about an earlier argument list must not answer a later one.
func c08collidingSpecs(c *core.Ctx) {
	r := c.R
	c.Count("colliding-subkey-specs")
	c.Eval()
	J := []string{" ", ",", "", "|", "\x00", ";", "\n", "/"}[r.Intn(8)]
	A := jv.M{"k": "v" + J + "w", "q": "1", "id": "A"}
	B := jv.M{"k": "v", "w" + J + "q": "1", "id": "B"}
	C := jv.M{"k": "v" + J + "w", "id": "C"}
	D := jv.M{"k": "v", "q": "1", "id": "D"}
	m := mxj.Map{"doc": jv.M{"item": jv.L{A, B, C, D}}}
	ids := func(vs []interface{}, err error) string {
		s := fmt.Sprint(err) + ":"
		for _, v := range vs {
			if mm, ok := v.(map[string]interface{}); ok {
				s += fmt.Sprint(mm["id"])
			}
		}
		return s
	}
	spec1 := []string{"k:v" + J + "w", "q:1"}
	spec2 := []string{"k:v", "w" + J + "q:1"}
	for round := 0; round < 2; round++ {
		for i, sp := range [][]string{spec1, spec2, spec1} {
			want := []string{"<nil>:A", "<nil>:B", "<nil>:A"}[i]
			if got := ids(m.ValuesForPath("doc.item", sp...)); got != want {
				c.Violate("c08-path-filter-law", "ValuesForPath with sub-keys answers with the members of another argument list whose joined text is the same", core.D{"subkeys": fmt.Sprintf("%q", sp), "joined_with": J, "members_expected": want, "members_observed": got})
				return
			}
			if got := ids(m.ValuesForKey("item", sp...)); got != want {
				c.Violate("c08-filter-law", "ValuesForKey with sub-keys answers with the members of another argument list whose joined text is the same", core.D{"subkeys": fmt.Sprintf("%q", sp), "joined_with": J, "members_expected": want, "members_observed": got})
				return
			}
		}
	}
	// two separators, one a prefix of the other: separator + text of the argument coincide
	s2 := []string{":", "|", ";"}[r.Intn(3)]
	t := []string{"-", "x", "#"}[r.Intn(3)]
	s1 := s2 + t
	m2 := mxj.Map{"doc": jv.M{"item": jv.L{jv.M{"id": "7", "n": "P"}, jv.M{t + "id": t + "7", "n": "Q"}, jv.M{"id": t + "7", "n": "R"}}}}
	names := func(vs []interface{}, err error) string {
		s := fmt.Sprint(err) + ":"
		for _, v := range vs {
			if mm, ok := v.(map[string]interface{}); ok {
				s += fmt.Sprint(mm["n"])
			}
		}
		return s
	}
	defer mxj.SetFieldSeparator()
	for round := 0; round < 2; round++ {
		mxj.SetFieldSeparator(s1)
		g1 := names(m2.ValuesForPath("doc.item", "id"+s1+"7"))
		mxj.SetFieldSeparator(s2)
		g2 := names(m2.ValuesForPath("doc.item", t+"id"+s2+t+"7"))
		if g1 != "<nil>:P" || g2 != "<nil>:Q" {
			c.Violate("c08-path-filter-law", "after a change of the field separator a sub-key argument is answered as it would have been under the other separator", core.D{"separators": []string{s1, s2}, "first_query_members": g1, "second_query_members": g2, "expected": "P then Q"})
			return
		}
	}
}

func (c08) Case(c *core.Ctx) {
	r := c.R
	if c.Index%40 == 7 {
		c08collidingSpecs(c)
	}
	keys := keyAlphabet(r, c07keys)
	if r.Intn(8) == 0 {
		// keys spelled like attributes under one prefix or another: for the queries they are keys like any other, and a
		// sub-key label names exactly the key it spells, whatever attribute prefix is in force
		keys = []string{"a", "-a", "@a", "attr_a", "k", "-k", "@k", "-Id", "-id"}
		c.Count("keys:attribute-like")
	}
	g := jv.GenOpt{Keys: keys, MaxFan: 3, WideProb: 25, ListInList: r.Intn(12) == 0, EmptyConts: true, Nulls: true, Scalars: c08scalar}.Fresh()
	root := jv.M{"doc": g.Value(r, 1+r.Intn(5), false)}
	if r.Intn(5) == 0 {
		root = g.Map(r, 1+r.Intn(4))
	}
	if r.Intn(3) == 0 {
		// a long key name high up: path length in characters and in segments then disagree
		root = jv.M{"configuration-section": root, "x": jv.M{"y": g.Value(r, 2, false)}}
	}
	if r.Intn(8) == 0 {
		// "" is a key like any other: below the top level a path spells it as an empty segment ("a..k"). One map node
		// below the root gets its entries moved under such a key (never the first or the last segment of a path).
		var nodes []map[string]interface{}
		var walk func(v interface{}, depth int)
		walk = func(v interface{}, depth int) {
			switch t := v.(type) {
			case map[string]interface{}:
				if depth > 0 && len(t) > 0 {
					nodes = append(nodes, t)
				}
				for _, kk := range sortedKeys(t) {
					walk(t[kk], depth+1)
				}
			case []interface{}:
				for _, e := range t {
					walk(e, depth)
				}
			}
		}
		walk(map[string]interface{}(root), 0)
		if len(nodes) > 0 {
			n := nodes[r.Intn(len(nodes))]
			inner := map[string]interface{}{}
			for kk, e := range n {
				inner[kk] = e
				delete(n, kk)
			}
			n[""] = inner
			c.Count("shape:interior-empty-key")
		}
	}
	if r.Intn(6) == 0 && !jv.HasListInList(root) {
		c.Add("shape:aliased-submaps", int64(jv.Alias(r, root, 1+r.Intn(2), nil)))
	}
	m := mxj.Map(root)
	oneIn := 6
	if &keys[0] == &hostileKeys[0] {
		oneIn = 2 // digit-string keys matter most when the dot-notation switch is on
	}
	if ambientDecoderOptions(c, oneIn) {
		defer ResetDefaults()
	}
	k := keys[r.Intn(len(keys))]
	switch r.Intn(10) {
	case 0:
		k = "*"
	case 1:
		k = "absent"
	}
	before := jv.Fp(root)
	c.Eval()
	failedCalls(c, 8)

	got, err := m.ValuesForKey(k)
	var want []interface{}
	refKeySearch(root, k, &want)
	det := core.D{"map": jv.Show(root), "key": k}
	if err != nil || !jv.MultisetEqual(got, want) {
		det["expected"], det["observed"], det["err"] = jv.Show(want), jv.Show(got), fmt.Sprint(err)
		c.Violate("c08-valuesforkey", "ValuesForKey differs from the reference key search", det)
		return
	}
	// asked again (same receiver, same key - and once more on an equal Map built separately): same answer
	if again, e := m.ValuesForKey(k); e != nil || !jv.MultisetEqual(again, want) {
		det["second_call"], det["err"] = jv.Show(again), fmt.Sprint(e)
		c.Violate("c08-valuesforkey", "ValuesForKey returns something else when asked a second time", det)
		return
	}
	if r.Intn(4) == 0 {
		if again, e := mxj.Map(jv.Copy(root).(jv.M)).ValuesForKey(k); e != nil || !jv.MultisetEqual(again, want) {
			det["on_equal_copy"], det["err"] = jv.Show(again), fmt.Sprint(e)
			c.Violate("c08-valuesforkey", "ValuesForKey on an equal Map built separately returns something else", det)
			return
		}
	}
	v1, e1 := m.ValueForKey(k)
	if len(got) == 0 {
		if e1 != mxj.KeyNotExistError {
			c.Violate("c08-valueforkey", "ValueForKey on an absent key must return KeyNotExistError", core.D{"map": jv.Show(root), "key": k, "err": fmt.Sprint(e1)})
		}
	} else if e1 != nil {
		c.Violate("c08-valueforkey", "ValueForKey failed although values exist", core.D{"map": jv.Show(root), "key": k, "err": fmt.Sprint(e1)})
	} else {
		found := false
		for _, g := range got {
			if jv.Equal(g, v1) {
				found = true
			}
		}
		if !found {
			c.Violate("c08-valueforkey", "ValueForKey returned a value ValuesForKey does not", core.D{"map": jv.Show(root), "key": k, "value": jv.Show(v1)})
		}
	}
	if len(got) > 32 {
		c.Count("result>32")
	}

	if k != "*" {
		paths := m.PathsForKey(k)
		wp := map[string]bool{}
		refPathsForKey(root, "", k, wp)
		gp := map[string]bool{}
		dup := false
		for _, p := range paths {
			if gp[p] {
				dup = true
			}
			gp[p] = true
		}
		if dup || jv.Fp(boolSet(gp)) != jv.Fp(boolSet(wp)) {
			c.Violate("c08-pathsforkey", "PathsForKey differs from the set of dot-paths ending in the key", core.D{"map": jv.Show(root), "key": k, "observed": fmt.Sprint(paths), "expected": fmt.Sprint(sortedBoolKeys(wp))})
			return
		}
		depths := map[int]bool{}
		minLen := 1 << 30
		for p := range wp {
			n := len(strings.Split(p, "."))
			depths[n] = true
			if n < minLen {
				minLen = n
			}
		}
		if len(depths) >= 2 {
			c.Count("key-at-2+-depths")
		}
		if len(wp) >= 2 {
			c.Count("paths>=2")
		}
		sh := m.PathForKeyShortest(k)
		if (len(wp) == 0 && sh != "") || (len(wp) > 0 && (!wp[sh] || len(strings.Split(sh, ".")) != minLen)) {
			c.Violate("c08-shortest", "PathForKeyShortest is not a path of minimal length", core.D{"map": jv.Show(root), "key": k, "observed": sh, "paths": fmt.Sprint(sortedBoolKeys(wp))})
		}
		// cross-API conservation (on very wide Maps a sample of the paths would not decide the multiset law: skipped, counted)
		var union []interface{}
		if len(wp) > 60 {
			c.Count("crossapi:skipped-more-than-60-paths")
			wp = map[string]bool{}
			union = got
		} else {
			c.Count("crossapi:checked")
		}
		for _, p := range sortedBoolKeys(wp) {
			vs, perr := m.ValuesForPath(p)
			if perr != nil {
				c.Violate("c08-crossapi", "ValuesForPath failed on a path returned by PathsForKey", core.D{"map": jv.Show(root), "path": p, "err": perr.Error()})
			}
			union = append(union, vs...)
		}
		if !jv.MultisetEqual(union, got) {
			class := "c08-crossapi"
			if keyUnderNestedList(root, k, false) && len(union) < len(got) {
				class = "c08-crossapi-list-in-list"
			}
			c.Violate(class, "values found through PathsForKey paths differ from ValuesForKey", core.D{"map": jv.Show(root), "key": k, "via_paths": jv.Show(union), "via_key": jv.Show(got), "paths": fmt.Sprint(sortedBoolKeys(wp))})
		}
	}

	// ---- filter law ----
	sep := ":"
	if r.Intn(3) == 0 {
		sep = []string{"|", ";", "::", "=>", "§"}[r.Intn(5)]
		mxj.SetFieldSeparator(sep)
		defer mxj.SetFieldSeparator()
		c.Count("altsep")
	}
	conds, specs := genConds(r, sep, got)
	for _, cd := range conds {
		if cd.neg {
			c.Count("cond:neg")
		}
		if cd.wild {
			c.Count("cond:wild")
		} else if _, isStr := cd.val.(string); !isStr {
			c.Count("cond:typed")
		}
	}
	fgot, ferr := m.ValuesForKey(k, specs...)
	if ferr != nil {
		c.Violate("c08-filter-error", "ValuesForKey rejected well-formed sub-key conditions", core.D{"map": jv.Show(root), "key": k, "subkeys": fmt.Sprint(specs), "err": ferr.Error()})
		return
	}
	ok, nPass, nFail := checkFilterLaw(got, fgot, conds)
	if len(got) > 0 {
		c.Count("filter:nonempty-unfiltered")
		c.NonTrivial(before, k, fmt.Sprint(specs))
	}
	if nPass > 0 && nFail > 0 {
		c.Count("filter:some-pass-some-fail")
	}
	if !ok {
		c.Violate("c08-filter-law", "ValuesForKey with sub-keys is not the satisfying subset of the unfiltered result", core.D{"map": jv.Show(root), "key": k, "subkeys": fmt.Sprint(specs), "filtered": jv.Show(fgot), "unfiltered": jv.Show(got)})
	}
	if c.WantSample() && nPass > 0 && nFail > 0 && len(before) < 400 {
		c.Sample(core.D{"map": before, "key": k, "subkeys": specs, "unfiltered": len(got), "filtered": len(fgot)})
	}
	// the same law for ValuesForPath (plain/wildcard and indexed)
	segs := genPath(r, root, append([]string{"doc"}, c07keys...), r.Intn(3) == 0, true)
	for i := range segs {
		if segs[i].name == "*" {
			segs[i].idx = -1
		}
	}
	if jv.HasListInList(root) {
		for i := range segs {
			segs[i].idx = -1
		}
	}
	path := pathString(segs)
	pAll, e0 := m.ValuesForPath(path)
	pF, e2 := m.ValuesForPath(path, specs...)
	if e0 != nil || e2 != nil {
		c.Violate("c08-path-filter-error", "ValuesForPath rejected well-formed arguments", core.D{"map": jv.Show(root), "path": path, "subkeys": fmt.Sprint(specs), "err": fmt.Sprint(e0, e2)})
	} else {
		ok, np, nf := checkFilterLaw(pAll, pF, conds)
		if np > 0 && nf > 0 {
			c.Count("pathfilter:some-pass-some-fail")
		}
		if numIndexed(segs) > 0 && len(pAll) > 0 {
			c.Count("pathfilter:indexed-nonempty")
		}
		if !ok {
			c.Violate("c08-path-filter-law", "ValuesForPath with sub-keys is not the satisfying subset of the unfiltered result", core.D{"map": jv.Show(root), "path": path, "subkeys": fmt.Sprint(specs), "filtered": jv.Show(pF), "unfiltered": jv.Show(pAll)})
		}
		ex, e3 := m.Exists(path, specs...)
		if e3 != nil || ex != (len(pF) > 0) {
			c.Violate("c08-exists-subkeys", "Exists with sub-keys is not 'filtered ValuesForPath non-empty'", core.D{"map": jv.Show(root), "path": path, "subkeys": fmt.Sprint(specs)})
		}
	}
	if jv.Fp(root) != before {
		c.Violate("c08-receiver-modified", "a query modified its receiver", core.D{"before": before, "after": jv.Show(root)})
	}
}

func boolSet(m map[string]bool) map[string]interface{} {
	o := map[string]interface{}{}
	for k := range m {
		o[k] = true
	}
	return o
}

func sortedBoolKeys(m map[string]bool) []string {
	return sortedKeys(boolSet(m))
}
