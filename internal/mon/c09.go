package mon

import (
	"encoding/json"
	"fmt"
	"math/rand"
	"sort"
	"strconv"
	"strings"

	mxj "github.com/clbanning/mxj/v2"
	"github.com/clbanning/mxj/v2/j2x"

	"verif/internal/core"
	"verif/internal/jv"
)

// C09 - exactly-once monitor for LeafNodes / LeafPaths / LeafValues.
type c09 struct{}

func init() { register(c09{}) }

func (c09) Meta() core.Meta {
	return core.Meta{
		ID: "C09", Level: "exploration",
		Rule:        "case i = f(seed,i): XML/JSON-shaped Map (attribute-prefixed and text-key entries with scalar values, nulls, lists of maps/scalars, leaves under 2-3 list levels separated by keys, no list directly in a list; in 1/4 of the cases arbitrary keys including \"\", \".\", \"a.b\", \"[0]\", \"*\") x {attr prefix - @ attr_ empty} x {key prefix # %} x no-attributes {absent,false,true} x dot-notation. Monitors: multiset of (path,value) from LeafNodes == independent walker (exactly once); LeafPaths/LeafValues == projections for the same option; no-attributes == leaves of the Map with attribute entries removed and the text-key segment dropped; for clean keys every [N]-form path resolves through ValuesForPath to exactly [value]; j2x.JsonLeafNodes agrees. Non-trivial: >=3 leaves and a list level; distinct by hash(map, options).",
		Assumptions: []string{"independent walker written from the LeafNodes documentation", "path text is compared only for Maps whose keys are free of . [ * and non-empty (the docs do not define how other keys are written in a path); values and counts are compared always"},
		Anchors:     []string{"Map.LeafNodes", "getLeafNodes", "Map.LeafPaths", "Map.LeafValues", "LeafUseDotNotation", "j2x.JsonLeafNodes", "valuesForArray"},
		Floors:      map[string]int64{"resolution:paths": 20000, "noattr:removed-something": 500, "dotnotation": 500, "arbitrary-keys": 1000, "leaf-under-2-lists": 300, "emptykey-below-root": 100, "list>=11-members": 300},
	}
}

func (c09) Cases(tier string, race bool) int {
	if race {
		return 0
	}
	if tier == "thorough" {
		return 2000000
	}
	return 150000
}

type leafT struct {
	path string
	val  interface{}
}

func refLeaves(v interface{}, path string, noattr, dot bool, attrPrefix, textK string, out *[]leafT) {
	switch t := v.(type) {
	case map[string]interface{}:
		for _, k := range sortedKeys(t) {
			if noattr && attrPrefix != "" && strings.HasPrefix(k, attrPrefix) {
				continue
			}
			p := path
			if !(noattr && k == textK) {
				if p != "" {
					p += "."
				}
				p += k
			}
			refLeaves(t[k], p, noattr, dot, attrPrefix, textK, out)
		}
	case []interface{}:
		for i, e := range t {
			if dot {
				p := path
				if p != "" {
					p += "."
				}
				refLeaves(e, p+strconv.Itoa(i), noattr, dot, attrPrefix, textK, out)
			} else {
				refLeaves(e, path+"["+strconv.Itoa(i)+"]", noattr, dot, attrPrefix, textK, out)
			}
		}
	default:
		*out = append(*out, leafT{path, v})
	}
}

func leafMultiset(ls []leafT, withPath bool) string {
	s := make([]string, 0, len(ls))
	for _, l := range ls {
		if withPath {
			s = append(s, l.path+"="+jv.Fp(l.val))
		} else {
			s = append(s, jv.Fp(l.val))
		}
	}
	sort.Strings(s)
	return strings.Join(s, "|")
}

func hasEmptyKey(v interface{}, belowRoot bool, depth int) (any, below bool) {
	switch t := v.(type) {
	case map[string]interface{}:
		for k, e := range t {
			if k == "" {
				any = true
				if depth > 0 {
					below = true
				}
			}
			a, b := hasEmptyKey(e, belowRoot, depth+1)
			any, below = any || a, below || b
		}
	case []interface{}:
		for _, e := range t {
			a, b := hasEmptyKey(e, belowRoot, depth+1)
			any, below = any || a, below || b
		}
	}
	return
}

func maxListLen(v interface{}) int {
	n := 0
	switch t := v.(type) {
	case map[string]interface{}:
		for _, e := range t {
			if x := maxListLen(e); x > n {
				n = x
			}
		}
	case []interface{}:
		n = len(t)
		for _, e := range t {
			if x := maxListLen(e); x > n {
				n = x
			}
		}
	}
	return n
}

func listDepth(v interface{}) int {
	d := 0
	switch t := v.(type) {
	case map[string]interface{}:
		for _, e := range t {
			if x := listDepth(e); x > d {
				d = x
			}
		}
	case []interface{}:
		for _, e := range t {
			if x := listDepth(e) + 1; x > d {
				d = x
			}
		}
		if len(t) == 0 {
			d = 0
		}
	}
	return d
}

// c09longList: a list longer than any 16-bit subscript; the paths of its members must resolve like any other.
func c09longList(c *core.Ctx) {
	n := 65536 + 4
	l := make([]interface{}, n)
	for i := range l {
		l[i] = "v" + strconv.Itoa(i)
	}
	m := mxj.Map{"table": map[string]interface{}{"row": l, "k": "x"}}
	c.Eval()
	c.Count("long-list:members-65540")
	leaves := m.LeafNodes()
	if len(leaves) != n+1 {
		c.Violate("c09-enumeration", "LeafNodes does not list every terminal value exactly once", core.D{"map": "table.row: 65540 strings, table.k", "leaves": len(leaves)})
		return
	}
	for _, i := range []int{0, 255, 256, 32767, 32768, 65535, 65536, 65539} {
		p := "table.row[" + strconv.Itoa(i) + "]"
		found := false
		for _, lf := range leaves {
			if lf.Path == p {
				found = lf.Value == l[i]
			}
		}
		vs, err := m.ValuesForPath(p)
		if !found || err != nil || len(vs) != 1 || vs[0] != l[i] {
			c.Violate("c09-resolution", "a LeafNodes path does not resolve (ValuesForPath) to exactly its value", core.D{"map": "table.row: 65540 strings", "path": p, "listed_by_LeafNodes": found, "values": jv.Show(vs), "err": fmt.Sprint(err)})
			return
		}
	}
}

func (c09) Case(c *core.Ctx) {
	r := c.R
	if c.Index%40000 == 5 {
		c09longList(c)
	}
	cfg := DefaultCfg()
	cfg.AttrPrefix = []string{"-", "-", "@", "attr_", "", "-", "@", "1", "[", "[1", "#", "#t", "#text"}[r.Intn(13)]
	cfg.KeyPrefix = []string{"#", "#", "%"}[r.Intn(3)]
	textK := cfg.textK()
	arbitrary := r.Intn(4) == 0 || strings.Contains(cfg.AttrPrefix, "[") // (attribute keys then contain '[': path text is not compared)
	keys := []string{"a", "b", "c", "k", "a", "b", "(0,10]", "r]", "#attr", "0"}
	if arbitrary {
		keys = append(keys, "", ".", "a.b", "[0]", "*", "a[1]", " ", "é", "#seq", "#comment", "1", "k ")
		for i := 0; i < 4; i++ {
			keys = append(keys, autoString(r, "a")) // literals of the tree under test, whatever they look like
		}
	} else if r.Intn(4) == 0 {
		for _, k := range autoKeys(r, 3) {
			if cfg.AttrPrefix == "" || !strings.HasPrefix(k, cfg.AttrPrefix) {
				keys = append(keys, k) // (a key that starts with the attribute prefix is an attribute entry: generated separately)
			}
		}
	}
	var gen func(depth int) interface{}
	scalar := func() interface{} {
		switch r.Intn(8) {
		case 0:
			return nil
		case 1:
			return float64(r.Intn(10))
		case 2:
			return r.Intn(2) == 0
		default:
			return fmt.Sprintf("s%d", r.Intn(60))
		}
	}
	gen = func(depth int) interface{} {
		x := r.Intn(10)
		if depth <= 0 {
			x = 0
		}
		switch {
		case x < 3:
			return scalar()
		case x < 8:
			m := jv.M{}
			n := 1 + r.Intn(4)
			for i := 0; i < n; i++ {
				switch r.Intn(7) {
				case 0:
					if cfg.AttrPrefix != "" {
						m[cfg.AttrPrefix+"x"+strconv.Itoa(r.Intn(2))] = scalar()
						continue
					}
					fallthrough
				case 1:
					m[textK] = scalar()
				default:
					m[keys[r.Intn(len(keys))]] = gen(depth - 1)
				}
			}
			return m
		default:
			n := r.Intn(4)
			if r.Intn(12) == 0 {
				n = 9 + r.Intn(30) // two-digit subscripts
			}
			l := jv.L{}
			for i := 0; i < n; i++ {
				v := gen(depth - 1)
				if _, isList := v.([]interface{}); isList {
					v = scalar()
				}
				l = append(l, v)
			}
			return l
		}
	}
	root := jv.M{"doc": gen(2 + r.Intn(4))}
	if arbitrary && r.Intn(3) == 0 {
		root[keys[r.Intn(len(keys))]] = gen(2)
	}
	if r.Intn(6) == 0 {
		c.Add("shape:aliased-submaps", int64(jv.Alias(r, root, 1+r.Intn(2), func(k string) bool {
			return k == textK || (cfg.AttrPrefix != "" && strings.HasPrefix(k, cfg.AttrPrefix)) // attribute and text entries stay scalar
		})))
	}
	before := jv.Fp(root)
	_, emptyBelow := hasEmptyKey(root, false, 0)
	if arbitrary {
		c.Count("arbitrary-keys")
	}
	if emptyBelow {
		c.Count("emptykey-below-root")
	}
	if listDepth(root) >= 2 {
		c.Count("leaf-under-2-lists")
	}
	if maxListLen(root) >= 11 {
		c.Count("list>=11-members")
	}
	dot := r.Intn(4) == 0

	cfg.Apply()
	mxj.LeafUseDotNotation(dot)
	defer ResetDefaults()
	if dot {
		c.Count("dotnotation")
	}
	m := mxj.Map(root)
	c.Eval()
	failedCalls(c, 8)

	var all []leafT
	refLeaves(root, "", false, dot, cfg.AttrPrefix, textK, &all)
	if len(all) >= 3 && listDepth(root) >= 1 {
		c.NonTrivial(before, cfg.AttrPrefix, cfg.KeyPrefix, fmt.Sprint(dot))
	}
	if c.WantSample() && len(all) >= 3 && len(before) < 300 && listDepth(root) >= 1 {
		var want []leafT
		refLeaves(root, "", true, dot, cfg.AttrPrefix, textK, &want)
		c.Sample(core.D{"map": before, "attrPrefix": cfg.AttrPrefix, "dot": dot, "leaves_noattr": leafMultiset(want, true)})
	}
	for _, opt := range []int{0, 1, 2} { // absent, false, true
		na := opt == 2
		var want []leafT
		refLeaves(root, "", na, dot, cfg.AttrPrefix, textK, &want)
		if na && len(want) != len(all) {
			c.Count("noattr:removed-something")
		}
		var nodes []mxj.LeafNode
		var lp []string
		var lv []interface{}
		switch opt {
		case 0:
			nodes, lp, lv = m.LeafNodes(), m.LeafPaths(), m.LeafValues()
		case 1:
			nodes, lp, lv = m.LeafNodes(false), m.LeafPaths(false), m.LeafValues(false)
		default:
			nodes, lp, lv = m.LeafNodes(true), m.LeafPaths(true), m.LeafValues(true)
		}
		var got []leafT
		for _, l := range nodes {
			got = append(got, leafT{l.Path, l.Value})
		}
		det := core.D{"map": jv.Show(root), "attrPrefix": cfg.AttrPrefix, "textKey": textK, "no_attr_option": []string{"absent", "false", "true"}[opt], "dot": dot}
		if len(got) != len(want) || leafMultiset(got, false) != leafMultiset(want, false) {
			det["observed"], det["expected"] = leafMultiset(got, true), leafMultiset(want, true)
			c.Violate("c09-enumeration", "LeafNodes does not list every terminal value exactly once", det)
			continue
		}
		if !arbitrary && leafMultiset(got, true) != leafMultiset(want, true) {
			det["observed"], det["expected"] = leafMultiset(got, true), leafMultiset(want, true)
			c.Violate("c09-paths", "LeafNodes paths differ from the dot/[N] notation of the walker", det)
			continue
		}
		// projections for the same option
		gp := make([]string, 0, len(got))
		for _, l := range got {
			gp = append(gp, l.path)
		}
		sort.Strings(gp)
		lps := append([]string{}, lp...)
		sort.Strings(lps)
		if strings.Join(gp, "\x00") != strings.Join(lps, "\x00") {
			det["leafnodes_paths"], det["leafpaths"] = fmt.Sprint(gp), fmt.Sprint(lps)
			c.Violate("c09-projection-paths", "LeafPaths is not the path projection of LeafNodes for the same option", det)
		}
		gv := make([]interface{}, 0, len(got))
		for _, l := range got {
			gv = append(gv, l.val)
		}
		if !jv.MultisetEqual(gv, lv) {
			det["leafnodes_values"], det["leafvalues"] = jv.Show(gv), jv.Show(lv)
			c.Violate("c09-projection-values", "LeafValues is not the value projection of LeafNodes for the same option", det)
		}
		// resolution clause
		if !na && !dot && !arbitrary {
			for _, l := range got {
				vs, err := m.ValuesForPath(l.path)
				c.Count("resolution:paths")
				if err != nil || len(vs) != 1 || !jv.Equal(vs[0], l.val) {
					c.Violate("c09-resolution", "a LeafNodes path does not resolve to exactly its value", core.D{"map": jv.Show(root), "path": l.path, "value": jv.Show(l.val), "resolved": jv.Show(vs), "err": fmt.Sprint(err)})
					break
				}
			}
		}
	}
	if jv.Fp(root) != before {
		c.Violate("c09-receiver-modified", "a Leaf* query modified its receiver", core.D{"before": before, "after": jv.Show(root)})
	}
	if r.Intn(5) == 0 && !dot {
		if jb, err := json.Marshal(root); err == nil && jsonSafeKeys(root) {
			ln, e := j2x.JsonLeafNodes(jb)
			var got []leafT
			for _, l := range ln {
				got = append(got, leafT{l.Path, l.Value})
			}
			if e != nil || leafMultiset(got, false) != leafMultiset(all, false) || (!arbitrary && leafMultiset(got, true) != leafMultiset(all, true)) {
				c.Violate("c09-j2x", "j2x.JsonLeafNodes differs from the leaves of the document", core.D{"json": string(jb), "observed": leafMultiset(got, true), "expected": leafMultiset(all, true), "err": fmt.Sprint(e)})
			}
			c.Count("api:j2x.JsonLeafNodes")
		}
	}
}

var _ = rand.Int
