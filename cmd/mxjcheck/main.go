// mxjcheck: driver. Rebuilds the monitored worker from /repo's working tree,
// shards the case list over child processes, merges their reports, runs the
// reach monitor (binary coverage), classifies violations against
// known_findings.json, writes evidence/<id>.json and prints the verdict.
//
// exit 0 held on what was observed / 1 violated / 3 inconclusive / 2 harness or build failure
package main

import (
	"bytes"
	"context"
	"encoding/json"
	"fmt"
	"os"
	"os/exec"
	"path/filepath"
	"regexp"
	"sort"
	"strconv"
	"strings"
	"sync"
	"syscall"
	"time"
	"unicode"

	"verif/internal/core"
)

const mxjPkg = "github.com/clbanning/mxj/v2"

type finding struct {
	Property string `json:"property"`
	Key      string `json:"key"`
	Status   string `json:"status"` // open | fixed
	What     string `json:"what"`
	Commit   string `json:"commit,omitempty"`
}

func goEnv() []string {
	env := os.Environ()
	env = append(env, "GOFLAGS=-mod=mod", "GOPROXY=off", "GOSUMDB=off", "GOTOOLCHAIN=local", "CGO_ENABLED=1")
	return env
}

func fail2(format string, a ...interface{}) {
	fmt.Printf("HARNESS-FAILURE "+format+"\n", a...)
	os.Exit(2)
}

func main() {
	if len(os.Args) < 3 {
		fmt.Println("usage: mxjcheck run <Cnn> [--tier quick|thorough] | mxjcheck replay <path>")
		os.Exit(2)
	}
	switch os.Args[1] {
	case "run":
		tier := os.Getenv("VERIF_TIER")
		for i := 3; i < len(os.Args); i++ {
			if os.Args[i] == "--tier" && i+1 < len(os.Args) {
				tier = os.Args[i+1]
			}
		}
		if tier != "thorough" {
			tier = "quick"
		}
		os.Exit(run(os.Args[2], tier))
	case "replay":
		os.Exit(replay(os.Args[2]))
	default:
		fmt.Println("unknown command", os.Args[1])
		os.Exit(2)
	}
}

var mxjSrc string

// mxjSrcDir: the directory the worker's mxj sources come from (the replace directive of go.mod; /repo).
func mxjSrcDir() string {
	if mxjSrc == "" {
		cmd := exec.Command("go", "list", "-m", "-f", "{{.Dir}}", "github.com/clbanning/mxj/v2")
		cmd.Env = goEnv()
		out, err := cmd.Output()
		if err != nil {
			fail2("go list -m (mxj source directory): %v", err)
		}
		mxjSrc = strings.TrimSpace(string(out))
	}
	return mxjSrc
}

func seedEnv() int64 {
	if s := os.Getenv("VERIF_SEED"); s != "" {
		if v, err := strconv.ParseInt(s, 10, 64); err == nil {
			return v
		}
	}
	return 1
}

func build(dir string, race bool) (string, error) {
	out := filepath.Join(dir, "worker")
	args := []string{"build", "-tags", "verif"}
	if race {
		out += "-race"
		args = append(args, "-race")
	} else {
		args = append(args, "-cover", "-coverpkg="+mxjPkg+"/...,verif/cmd/worker")
	}
	args = append(args, "-o", out, "./cmd/worker")
	cmd := exec.Command("go", args...)
	cmd.Env = goEnv()
	b, err := cmd.CombinedOutput()
	if err != nil {
		return "", fmt.Errorf("go %s: %v\n%s", strings.Join(args, " "), err, b)
	}
	return out, nil
}

func run(id, tier string) int {
	t0 := time.Now()
	seed := seedEnv()
	mxjSrcDir()
	wd, _ := os.Getwd()
	dir := filepath.Join(wd, ".build", id)
	os.RemoveAll(dir)
	if err := os.MkdirAll(filepath.Join(dir, "cov"), 0o755); err != nil {
		fail2("%v", err)
	}
	os.MkdirAll(filepath.Join(wd, "evidence"), 0o755)
	os.MkdirAll(filepath.Join(wd, "replays"), 0o755)
	if old, _ := filepath.Glob(filepath.Join(wd, "replays", id+"-*.json")); len(old) > 0 {
		for _, f := range old {
			os.Remove(f)
		}
	}

	worker, err := build(dir, false)
	if err != nil {
		fail2("build of the worker against /repo failed (no verdict):\n%v", err)
	}
	mb, err := exec.Command(worker, "-meta", id).Output()
	if err != nil {
		fail2("worker -meta: %v", err)
	}
	var metas []core.Meta
	if err := json.Unmarshal(mb, &metas); err != nil || len(metas) != 1 {
		fail2("unknown property %s", id)
	}
	meta := metas[0]
	var raceWorker string
	if meta.UsesRace {
		raceWorker, err = build(dir, true)
		if err != nil {
			fail2("race build failed:\n%v", err)
		}
	}

	nshards := 16
	if v := os.Getenv("VERIF_SHARDS"); v != "" {
		if n, e := strconv.Atoi(v); e == nil && n > 0 {
			nshards = n
		}
	}
	watchdog := 20 * time.Minute
	if tier == "thorough" {
		watchdog = 3 * time.Hour
	}

	type child struct {
		shard int
		race  bool
		err   error
		timed bool
	}
	var children []*child
	var wg sync.WaitGroup
	sem := make(chan struct{}, 16)
	spawn := func(bin string, race bool, shards int) {
		for s := 0; s < shards; s++ {
			ch := &child{shard: s, race: race}
			children = append(children, ch)
			wg.Add(1)
			go func() {
				defer wg.Done()
				sem <- struct{}{}
				defer func() { <-sem }()
				tag := fmt.Sprintf("shard-%02d", ch.shard)
				if race {
					tag += "r"
				}
				args := []string{"-prop", id, "-tier", tier, "-seed", strconv.FormatInt(seed, 10),
					"-shard", strconv.Itoa(ch.shard), "-nshards", strconv.Itoa(shards), "-out", dir}
				if race {
					args = append(args, "-race")
				}
				ctx, cancel := context.WithTimeout(context.Background(), watchdog)
				defer cancel()
				cmd := exec.CommandContext(ctx, bin, args...)
				cmd.Cancel = func() error { return cmd.Process.Signal(syscall.SIGQUIT) }
				cmd.WaitDelay = 10 * time.Second
				cmd.Dir = wd
				cmd.Env = append(os.Environ(), "VERIF_MXJ_SRC="+mxjSrcDir(), "GOCOVERDIR="+filepath.Join(dir, "cov"),
					"GORACE=halt_on_error=0 log_path="+filepath.Join(dir, "race-"+tag),
					"VERIF_SCRATCH="+filepath.Join(dir, "scratch-"+tag), "GOTRACEBACK=all")
				of, _ := os.Create(filepath.Join(dir, tag+".out"))
				defer of.Close()
				cmd.Stdout, cmd.Stderr = of, of
				ch.err = cmd.Run()
				ch.timed = ctx.Err() != nil
			}()
		}
	}
	spawn(worker, false, nshards)
	if meta.UsesRace {
		spawn(raceWorker, true, nshards)
	}
	wg.Wait()

	// ---- merge ----
	agg := core.Report{Counters: map[string]int64{}, ViolCount: map[string]int64{}}
	nt := map[uint64]struct{}{}
	sets := map[string]map[uint64]struct{}{}
	inconclusive := []string{}
	var violations []core.Violation
	for _, ch := range children {
		tag := fmt.Sprintf("shard-%02d", ch.shard)
		if ch.race {
			tag += "r"
		}
		var rep core.Report
		b, rerr := os.ReadFile(filepath.Join(dir, tag+".json"))
		if rerr == nil {
			rerr = json.Unmarshal(b, &rep)
		}
		if rerr != nil || !rep.Done {
			// the child died: attribute to the case logged before the library was invoked
			idx := -1
			if pb, e := os.ReadFile(filepath.Join(dir, tag+".progress")); e == nil {
				if v, e2 := strconv.Atoi(strings.TrimSpace(string(pb))); e2 == nil {
					idx = v
				}
			}
			outb, _ := os.ReadFile(filepath.Join(dir, tag+".out"))
			if ch.timed {
				inconclusive = append(inconclusive, fmt.Sprintf("watchdog fired on %s at case %d", tag, idx))
				continue
			}
			if idx < 0 {
				inconclusive = append(inconclusive, fmt.Sprintf("%s died before its first case: %v", tag, ch.err))
				continue
			}
			class := "fatal:" + fatalKind(string(outb))
			agg.ViolCount[class]++
			violations = append(violations, core.Violation{Class: class, Index: idx, Race: ch.race,
				Msg:    "child process died with a fatal runtime error while executing this case",
				Detail: core.D{"stderr_head": head(string(outb), 60)}})
			continue
		}
		agg.Evaluations += rep.Evaluations
		for k, v := range rep.Counters {
			if strings.HasPrefix(k, "max:") {
				if v > agg.Counters[k] {
					agg.Counters[k] = v
				}
			} else {
				agg.Counters[k] += v
			}
		}
		for k, v := range rep.ViolCount {
			agg.ViolCount[k] += v
		}
		violations = append(violations, rep.Violations...)
		for _, h := range rep.Harness {
			agg.Harness = append(agg.Harness, h)
		}
		if len(agg.Samples) < 6 {
			for _, s := range rep.Samples {
				if len(agg.Samples) < 6 {
					agg.Samples = append(agg.Samples, s)
				}
			}
		}
		core.ReadHashes(filepath.Join(dir, tag+".nt"), nt)
		ms, _ := filepath.Glob(filepath.Join(dir, tag+".set.*"))
		for _, f := range ms {
			name := f[strings.Index(f, ".set.")+5:]
			if sets[name] == nil {
				sets[name] = map[uint64]struct{}{}
			}
			core.ReadHashes(f, sets[name])
		}
	}
	if len(agg.Harness) > 0 && len(agg.ViolCount) == 0 {
		fmt.Printf("HARNESS-FAILURE %d harness errors; first:\n%s\n", len(agg.Harness), agg.Harness[0])
		return 2
	}

	// ---- race reports ----
	raceReports := map[string]string{}
	nRaceBlocks := 0
	if meta.UsesRace {
		files, _ := filepath.Glob(filepath.Join(dir, "race-*"))
		for _, f := range files {
			b, _ := os.ReadFile(f)
			for _, blk := range strings.Split(string(b), "==================") {
				if !strings.Contains(blk, "WARNING: DATA RACE") {
					continue
				}
				nRaceBlocks++
				key := raceKey(blk)
				if _, ok := raceReports[key]; !ok {
					raceReports[key] = head(blk, 60)
				}
			}
		}
		for k, blk := range raceReports {
			class := "race:" + k
			agg.ViolCount[class]++
			violations = append(violations, core.Violation{Class: class, Index: -1, Race: true,
				Msg: "WARNING: DATA RACE reported by the Go race detector", Detail: core.D{"report": blk}})
		}
	}

	// ---- reach monitor ----
	cov := coverage(filepath.Join(dir, "cov"))
	anchorCov := map[string]float64{}
	var anchorsGone, internalUnreached []string
	internalReached := 0
	for _, a := range meta.Anchors {
		pct, ok := cov[a]
		if !ok && len(cov) > 0 && unexportedAnchor(a) {
			// an internal function that this tree does not have (renamed, inlined or removed by a refactoring): nothing to
			// reach; the exported entry points among the anchors still have to be reached
			anchorsGone = append(anchorsGone, a)
			continue
		}
		anchorCov[a] = pct
		if ok && pct > 0 {
			if unexportedAnchor(a) {
				internalReached++
			}
			continue
		}
		if unexportedAnchor(a) {
			// present but never executed: either the workload lost its way to it, or the tree no longer calls it (dead code
			// after a refactoring) - which cannot be told apart from here. Listed in the evidence; the run is inconclusive
			// only if NO internal anchor is reached (below) or an exported entry point is not.
			internalUnreached = append(internalUnreached, a)
			continue
		}
		inconclusive = append(inconclusive, "anchor function not executed: "+a)
	}
	if internalReached == 0 {
		for _, a := range internalUnreached {
			inconclusive = append(inconclusive, "anchor function not executed: "+a)
		}
	}
	sort.Strings(anchorsGone)
	sort.Strings(internalUnreached)
	// ---- observation floors ----
	if tierFloorApplies(tier) {
		for k, f := range meta.Floors {
			if agg.Counters[k] < f {
				inconclusive = append(inconclusive, fmt.Sprintf("observation floor not met: %s=%d < %d", k, agg.Counters[k], f))
			}
		}
		for k, f := range meta.SetFloors {
			if int64(len(sets[k])) < f {
				inconclusive = append(inconclusive, fmt.Sprintf("distinct-observation floor not met: |%s|=%d < %d", k, len(sets[k]), f))
			}
		}
	}

	// ---- classify against known findings ----
	var known []finding
	if b, e := os.ReadFile(filepath.Join(wd, "known_findings.json")); e == nil {
		if e2 := json.Unmarshal(b, &known); e2 != nil {
			fail2("known_findings.json: %v", e2)
		}
	}
	open := map[string]finding{}
	for _, k := range known {
		if k.Property == id && k.Status == "open" {
			open[k.Key] = k
		}
	}
	classes := make([]string, 0, len(agg.ViolCount))
	for k := range agg.ViolCount {
		classes = append(classes, k)
	}
	sort.Strings(classes)
	var lines []string
	newViol := 0
	knownHits := map[string]int64{}
	for _, cl := range classes {
		if f, ok := open[cl]; ok {
			lines = append(lines, fmt.Sprintf("KNOWN-FINDING: property=%s %s [%s, %d occurrences]", id, f.What, cl, agg.ViolCount[cl]))
			knownHits[cl] = agg.ViolCount[cl]
			continue
		}
		newViol += int(agg.ViolCount[cl])
		// write a replay file for the first stored witness of the class
		for _, v := range violations {
			if v.Class != cl {
				continue
			}
			p := filepath.Join("replays", fmt.Sprintf("%s-%s-%d.json", id, sanitize(cl), v.Index))
			rb, _ := json.MarshalIndent(core.D{"property": id, "tier": tier, "seed": seed, "index": v.Index, "race": v.Race,
				"class": v.Class, "msg": v.Msg, "detail": v.Detail}, "", " ")
			os.WriteFile(filepath.Join(wd, p), rb, 0o644)
			lines = append(lines, fmt.Sprintf("VIOLATION property=%s replay=%s", id, filepath.Join(wd, p)))
			lines = append(lines, fmt.Sprintf("  class=%s occurrences=%d: %s", cl, agg.ViolCount[cl], v.Msg))
			break
		}
	}

	// ---- evidence ----
	obs := map[string]interface{}{}
	ck := make([]string, 0, len(agg.Counters))
	for k := range agg.Counters {
		ck = append(ck, k)
	}
	sort.Strings(ck)
	for _, k := range ck {
		obs[k] = agg.Counters[k]
	}
	setSizes := map[string]int{}
	for k, s := range sets {
		setSizes[k] = len(s)
	}
	if len(agg.Samples) == 0 {
		agg.Samples = append(agg.Samples, "no sample recorded")
	}
	verdict := "held on what was observed"
	if newViol > 0 {
		verdict = "violated"
	} else if len(inconclusive) > 0 {
		verdict = "inconclusive"
	}
	ev := core.D{
		"property_id": id, "tier": tier, "seed": seed, "level": meta.Level,
		"coverage": core.D{
			"evaluations":                      agg.Evaluations,
			"distinct_nontrivial":              len(nt),
			"rule":                             meta.Rule,
			"samples":                          agg.Samples,
			"exhaustive":                       false,
			"observed":                         obs,
			"distinct_observed":                setSizes,
			"anchor_function_coverage_percent": anchorCov,
			"anchor_functions_not_present_in_this_tree":          anchorsGone,
			"internal_anchor_functions_present_but_not_executed": internalUnreached,
			"known_finding_hits":                                 knownHits,
			"violation_classes":                                  agg.ViolCount,
			"inconclusive":                                       inconclusive,
			"race_report_blocks":                                 nRaceBlocks,
			"race_reports_distinct":                              len(raceReports),
			"child_processes":                                    len(children),
			"verdict":                                            verdict,
		},
		"assumptions": meta.Assumptions,
		"wall_s":      time.Since(t0).Seconds(),
		"violations":  newViol,
	}
	eb, _ := json.MarshalIndent(ev, "", " ")
	if err := os.WriteFile(filepath.Join(wd, "evidence", id+".json"), eb, 0o644); err != nil {
		fail2("%v", err)
	}

	for _, l := range lines {
		fmt.Println(l)
	}
	fmt.Printf("%s tier=%s seed=%d evaluations=%d distinct_nontrivial=%d wall=%.1fs verdict=%s\n",
		id, tier, seed, agg.Evaluations, len(nt), time.Since(t0).Seconds(), verdict)
	if newViol > 0 {
		return 1
	}
	if len(inconclusive) > 0 {
		for _, r := range inconclusive {
			fmt.Printf("INCONCLUSIVE property=%s reason=%s\n", id, r)
		}
		return 3
	}
	return 0
}

func tierFloorApplies(string) bool { return true }

func sanitize(s string) string {
	return regexp.MustCompile(`[^A-Za-z0-9_.-]+`).ReplaceAllString(s, "_")
}

func head(s string, n int) string {
	l := strings.Split(s, "\n")
	if len(l) > n {
		l = l[:n]
	}
	return strings.Join(l, "\n")
}

func fatalKind(out string) string {
	for _, l := range strings.Split(out, "\n") {
		if strings.HasPrefix(l, "fatal error:") {
			return strings.TrimSpace(strings.TrimPrefix(l, "fatal error:"))
		}
		if strings.HasPrefix(l, "runtime: goroutine stack exceeds") {
			return "stack overflow"
		}
		if strings.HasPrefix(l, "panic:") {
			return "unrecovered " + strings.TrimSpace(l)
		}
	}
	return "unknown"
}

var frameRe = regexp.MustCompile(`(?m)^  (github\.com/clbanning/mxj/v2\S*?)\(\)$`)

// raceKey deduplicates race reports by the pair of innermost mxj frames of the two accesses.
func raceKey(blk string) string {
	parts := regexp.MustCompile(`(?m)^(Previous |)(Write|Read|read|write) (at|by)`).Split(blk, -1)
	var fr []string
	for _, p := range parts[1:] {
		m := frameRe.FindStringSubmatch(p)
		if m != nil {
			fr = append(fr, strings.TrimPrefix(m[1], mxjPkg))
		}
		if len(fr) == 2 {
			break
		}
	}
	if len(fr) == 0 {
		all := frameRe.FindAllStringSubmatch(blk, 2)
		for _, m := range all {
			fr = append(fr, strings.TrimPrefix(m[1], mxjPkg))
		}
	}
	sort.Strings(fr)
	if len(fr) == 0 {
		return "no-mxj-frame"
	}
	return strings.Join(fr, "|")
}

// unexportedAnchor: the anchor names an internal function or a method of an internal type (xmlToMapParser,
// attrList.Less, *teeReader.ReadByte) - as opposed to an exported entry point (Map.Xml, NewMapXml, j2x.JsonToXml).
func unexportedAnchor(a string) bool {
	if i := strings.LastIndex(a, "."); i >= 0 {
		head := a[:i]
		if head == "j2x" || head == "x2j" || head == "x2j-wrapper" {
			a = a[i+1:]
		} else {
			a = strings.TrimPrefix(head[strings.LastIndex(head, ".")+1:], "*") // the receiver type decides
		}
	}
	a = strings.TrimPrefix(a, "*")
	return a != "" && !unicode.IsUpper([]rune(a)[0])
}

// coverage maps function name -> percent of statements executed, from the
// merged GOCOVERDIR of all child processes.
func coverage(dir string) map[string]float64 {
	res := map[string]float64{}
	ents, _ := os.ReadDir(dir)
	if len(ents) == 0 {
		return res
	}
	cmd := exec.Command("go", "tool", "covdata", "func", "-i="+dir)
	cmd.Env = goEnv()
	var out bytes.Buffer
	cmd.Stdout = &out
	if err := cmd.Run(); err != nil {
		return res
	}
	for _, l := range strings.Split(out.String(), "\n") {
		f := strings.Fields(l)
		if len(f) != 3 || !strings.HasSuffix(f[2], "%") {
			continue
		}
		pct, err := strconv.ParseFloat(strings.TrimSuffix(f[2], "%"), 64)
		if err != nil {
			continue
		}
		// f[0] = path/file.go:line:  f[1] = funcName
		file := f[0]
		if i := strings.Index(file, ":"); i > 0 {
			file = file[:i]
		}
		pkg := filepath.Base(filepath.Dir(file))
		name := f[1]
		switch pkg {
		case "v2":
		case "j2x", "x2j", "x2j-wrapper":
			name = pkg + "." + name
		default:
			continue
		}
		if old, ok := res[name]; !ok || pct > old {
			res[name] = pct
		}
	}
	return res
}

func replay(path string) int {
	b, err := os.ReadFile(path)
	if err != nil {
		fail2("%v", err)
	}
	var r struct {
		Property string
		Tier     string
		Seed     int64
		Index    int
		Race     bool
		Class    string
		Msg      string
	}
	if err := json.Unmarshal(b, &r); err != nil {
		fail2("%v", err)
	}
	if r.Index < 0 {
		fmt.Printf("replay of %s: this witness (race report / end-of-process assertion) has no case index; rerunning the check (`mxjcheck run %s --tier %s` with VERIF_SEED=%d)\n", r.Class, r.Property, r.Tier, r.Seed)
		return run(r.Property, r.Tier)
	}
	wd, _ := os.Getwd()
	dir := filepath.Join(wd, ".build", "replay")
	os.MkdirAll(dir, 0o755)
	worker, err := build(dir, r.Race)
	if err != nil {
		fail2("build failed: %v", err)
	}
	args := []string{"-prop", r.Property, "-tier", r.Tier, "-seed", strconv.FormatInt(r.Seed, 10), "-only", strconv.Itoa(r.Index), "-v"}
	if r.Race {
		args = append(args, "-race")
	}
	fmt.Printf("replaying %s case %d (recorded: class=%s: %s)\n", r.Property, r.Index, r.Class, r.Msg)
	cmd := exec.Command(worker, args...)
	cmd.Env = append(os.Environ(), "VERIF_MXJ_SRC="+mxjSrcDir(), "VERIF_SCRATCH="+filepath.Join(dir, "scratch"))
	cmd.Stdout, cmd.Stderr = os.Stdout, os.Stderr
	if err := cmd.Run(); err != nil {
		return 1
	}
	return 0
}
