#!/usr/bin/env python3
# Collects the seeded changes produced by independent sub-agents into /verif/seeded/<id>/ after re-verifying each:
# scratch worktree: suite passes with the patch, demonstration passes clean / fails patched; then the owning check is
# run against /repo with the patch applied (git apply ... ; git checkout -- .).
import json, os, re, shutil, subprocess, sys
SRC = sys.argv[1] if len(sys.argv) > 1 else "/tmp/seed-out"      # where the sub-agents left their work
LETTERS = sys.argv[2] if len(sys.argv) > 2 else "AB"             # names given to the two changes of each property in seeded/
# changes whose effect lies in the domain of another property's check (the sub-agent was given only its own property text)
OWNER_OVERRIDE = {"C01-H": "C20", "C04-L": "C05", "C07-L": "C17", "C09-K": "C17", "C16-L": "C17", "C18-N": "C08", "C14-P": "C20", "C18-O": "C05", "C18-P": "C05"}
head = subprocess.check_output(["git","-C","/repo","rev-parse","--short","HEAD"]).decode().strip()
os.makedirs("/verif/seeded", exist_ok=True)
rows = []
for i in range(1, 21):
    pid = "C%02d" % i
    for k, outk in zip("AB", LETTERS):
        src = "%s/%s" % (SRC, pid)
        patch = "%s/patch%s.rebased.diff" % (src, k)
        rebased = os.path.exists(patch)
        if not rebased:
            patch = "%s/patch%s.diff" % (src, k)
        if not os.path.exists(patch):
            continue
        v = subprocess.run(["/verif/tools/seed_verify.sh", pid, k, patch, src], capture_output=True, text=True).stdout.strip().splitlines()
        v = [l for l in v if l.startswith(pid)]
        vline = v[-1] if v else "NO OUTPUT"
        ok = ("demo-clean=[ok" in vline) and ("suite-ok-pkgs=3" in vline) and ("FAIL" in vline.split("demo-patched=")[-1])
        check = OWNER_OVERRIDE.get("%s-%s" % (pid, outk), pid)
        t = subprocess.run(["/verif/tools/try_patch.sh", patch, check], capture_output=True, text=True).stdout
        classes = re.findall(r"class=(\S+) occurrences=(\d+)", t)
        races = "race:" in t
        detected = "VIOLATION" in t
        name = "%s-%s" % (pid, outk)
        rows.append((name, ok, detected, [c for c, _ in classes]))
        if not ok:
            print(name, "NOT KEPT (verification failed):", vline); continue
        d = "/verif/seeded/%s" % name
        os.makedirs(d, exist_ok=True)
        shutil.copy(patch, d + "/patch.diff")
        demo = "%s/demo%s_test.go" % (src, k)
        shutil.copy(demo, d + "/demo_test.go.txt")
        notes = open("%s/notes%s.md" % (src, k)).read()
        ddir = (re.match(r"// dir: *(\S+)", open(demo).readline()) or [None, "."])[1]
        meta = {
          "id": name, "property": pid,
          "origin": "independent sub-agent given only the property text and a scratch worktree of /repo (nothing from /verif)",
          "patch_applies_to_repo_commit": head,
          "rebased_onto_fix_commits": rebased,
          "what_it_needs_to_manifest": notes.strip(),
          "demonstration": {"file": "demo_test.go.txt (copy as <name>_test.go)", "copy_into_package_dir": ddir, "passes_on_clean_tree": True, "fails_with_patch": True},
          "what_was_run": ["tools/seed_verify.sh %s %s (scratch worktree: git apply; go test -vet=off -count=1 . ./j2x ./x2j ./x2j-wrapper -> 3 packages ok; demonstration test clean: ok, patched: FAIL)" % (pid, k),
                           "git -C /repo apply patch.diff; ./bin/mxjcheck run %s --tier quick (VERIF_SEED=1); git -C /repo checkout -- ." % check],
          "detected_by_check": check if detected else None,
          "violation_classes_reported": [{"class": c, "occurrences": int(n)} for c, n in classes],
        }
        json.dump(meta, open(d + "/meta.json", "w"), indent=1)
        print(name, "kept; detected=%s" % detected, [c for c, _ in classes][:4])
json.dump([{"id": n, "verified": ok, "detected": det, "classes": cl} for n, ok, det, cl in rows], open("/verif/seeded/SUMMARY-%s.json" % LETTERS, "w"), indent=1)
