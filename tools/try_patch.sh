#!/bin/bash
# usage: tools_try.sh <patch> <Cnn> [tier]  -- apply patch to /repo, run check, revert
p=$1; id=$2; tier=${3:-quick}
cd /repo && git apply "$p" || { echo "PATCH DOES NOT APPLY"; exit 9; }
cd /verif && ./bin/mxjcheck run $id --tier $tier | grep -E "VIOLATION|class=|verdict|INCONCL|HARNESS|KNOWN" | head -12
cd /repo && git checkout -- . && git status --short | head -3
cd /verif && git checkout -q -- evidence 2>/dev/null
