package mon

import (
	"bytes"
	"encoding/gob"
	"encoding/json"
	"encoding/xml"
	"fmt"
	"io"
	"math/rand"
	"os"
	"path/filepath"
	"strings"

	mxj "github.com/clbanning/mxj/v2"

	"verif/internal/core"
	"verif/internal/jv"
	"verif/internal/xt"
)

// C15 - totality: decoders and string-argument APIs return a value or an error, never panic;
// decoders fail exactly when the std tokenizer rejects the first document.
type c15 struct{}

func init() {
	register(c15{})
}

// RegisterGobTypes does what the gob documentation asks of every caller that sends nested interface values. The worker
// calls it at start - except in half of the shards of the C17 race rounds, where the first Gob calls of the process then
// run concurrently against an unregistered type table (whatever they return must equal the sequential result).
var gobRegistered bool

func RegisterGobTypes() {
	gobRegistered = true
	gob.Register(map[string]interface{}{})
	gob.Register([]interface{}{})
}

func (c15) Meta() core.Meta {
	return core.Meta{
		ID: "C15", Level: "fault_enumeration",
		Rule:        "case i = f(seed,i), five kinds. (xml) a small generated document (<=70 bytes; attributes, text, comments, CDATA, PIs, namespaces) is offered intact, at EVERY truncation point and with EVERY single-byte substitution from the hostile set {< > / & \" ' [ ] { } \\ : ! ? - = space NUL 0xFF FF(0x0C)} to NewMapXml, NewMapXmlReader, NewMapXmlReaderRaw, HandleXmlReader[Raw], NewMapXmlSeq, NewMapXmlSeqReader[Raw], NewMapFormattedXmlSeq and BeautifyXml; an independent pass of the strict std tokenizer over the same bytes (up to the end tag that closes the first start element) decides acceptance (configured like mxj.CustomDecoder - strict/non-strict, extra entities, HTML auto-close - in the cases that set one; NewMapFormattedXmlSeq judged on the input with blank/tab/CR/LF runs between '>' and '<' removed): reject <=> error and empty Map (sequence decoder: documented NoRoot one-entry result for a leading comment/directive/PI). (json) the same enumeration over JSON documents for NewMapJson (oracle: encoding/json, as C06) and the JSON reader / bulk forms (termination, no panic). (gob) every truncation and substitution of a gob stream: NewMapGob errs <=> encoding/gob rejects. (special) stray end tags, mixed content, invalid UTF-8, nesting depth up to 20000, wide documents. (args) junk path / key / sub-key / key-pair / new-value strings (empty segments, negative and huge indexes, unmatched brackets, empty sub-key names, extra separators) on arbitrary Maps incl. empty keys, through every query and update method. Every Map a decoder returns is passed to all its encoders (Xml, XmlIndent, Json, Gob, LeafNodes, StringIndent; MapSeq.Xml/XmlIndent). Reader forms run on a Read-count budget (termination on logical steps). The hostile batches are repeated under the -race build (checkptr armed). Non-trivial: a mutated input or a junk argument; distinct by hash(input bytes / arguments).",
		Assumptions: []string{"encoding/xml strict tokenizer, encoding/json and encoding/gob define acceptance", "nesting depth bound 20000 (a 10^6-deep document overflows the goroutine stack in the recursive encoder: outside the explored bound, DESIGN section 6 F25)", "gob mutants keep every substituted byte below 0x80: encoding/gob allocates by untrusted length prefixes, so larger counts can exhaust memory inside the standard library (reference and NewMapGob alike)"},
		Anchors:     []string{"NewMapXml", "NewMapXmlSeq", "xmlSeqToMapParser", "NewMapJson", "NewMapJsonReaderRaw", "getJson", "NewMapGob", "BeautifyXml", "parsePath", "getSubKeyMap", "hasSubKeys", "getLeafNodes", "Map.SetValueForPath", "Map.UpdateValuesForPath", "Map.NewMap", "valuesForArray", "elemListSeq.Less", "MapSeq.Xml"},
		Floors:      map[string]int64{"xml:std-rejects": 20000, "xml:std-accepts": 5000, "xml:seq-noroot": 200, "json:inputs": 20000, "gob:inputs": 3000, "gob:std-rejects": 1000, "args:calls": 30000, "args:error-returned": 5000, "decoded-maps-reencoded": 5000, "special:deep": 2},
		UsesRace:    true,
	}
}

func (c15) Cases(tier string, race bool) int {
	n := 400
	if tier == "thorough" {
		n = 12000
	}
	if race {
		return n / 4
	}
	return n
}

var c15hostile = []byte("<>/&\"'[]{}\\:!?-= \x00\xff\x0c")

var c15xmlgen = xt.GenCfg{Names: []string{"a", "b", "x-y"}, Prefixes: []string{"", "", "n"}, Texts: []string{"", "t", "&amp;", "<", "1", "a]]>b", "é"}, MaxKids: 2, MaxAttrs: 2, SeqMode: false}
var c15seqgen = xt.GenCfg{Names: []string{"a", "b", "x-y"}, Prefixes: []string{"", "n", "n"}, Texts: []string{"", "t", "&amp;", "1"}, MaxKids: 2, MaxAttrs: 2, SeqMode: true}

// stdFirstDoc: verdict of the strict std tokenizer on the first document in b.
// leading = kind of the first comment/directive/PI seen before the first start element ("" if none).
func stdFirstDoc(b []byte) (accept bool, leading string, why string) {
	d := xml.NewDecoder(bytes.NewReader(b))
	if c15custom != nil {
		// "the underlying tokenizer" is the one the caller configured through CustomDecoder / XmlCharsetReader
		d.Strict, d.AutoClose, d.Entity, d.CharsetReader = c15custom.Strict, c15custom.AutoClose, c15custom.Entity, c15custom.CharsetReader
	}
	depth := 0
	started := false
	for {
		t, err := d.Token()
		if err != nil {
			if err == io.EOF {
				return false, leading, "EOF before the first document was complete"
			}
			return false, leading, err.Error()
		}
		switch t.(type) {
		case xml.StartElement:
			started = true
			depth++
		case xml.EndElement:
			depth--
			if depth == 0 && started {
				return true, leading, ""
			}
		case xml.Comment:
			if !started && leading == "" {
				leading = "comment"
			}
		case xml.Directive:
			if !started && leading == "" {
				leading = "directive"
			}
		case xml.ProcInst:
			if !started && leading == "" {
				leading = "procinst"
			}
		}
	}
}

// c15custom mirrors mxj.CustomDecoder for the reference tokenizer (nil: strict defaults).
var c15custom *xml.Decoder

type budgetReader struct {
	r      io.Reader
	reads  int
	budget int
	over   bool
}

func (b *budgetReader) Read(p []byte) (int, error) {
	b.reads++
	if b.reads > b.budget {
		b.over = true
		return 0, fmt.Errorf("read budget exceeded")
	}
	return b.r.Read(p)
}

var c15flip bool

// newBudget: a plain (non-ByteReader) source on a Read-call budget; every other one delivers its last byte together
// with io.EOF (legal for an io.Reader, e.g. iotest.DataErrReader) - acceptance must not depend on that.
func newBudget(data []byte) *budgetReader {
	c15flip = !c15flip
	var src io.Reader = bytes.NewReader(data)
	if c15flip {
		src = &hostileReader{data: data, eofWith: true, budget: 1 << 30}
	}
	return &budgetReader{r: src, budget: 2*len(data) + 16}
}

// reencode: every Map produced by a decoder goes through its encoders (panics are caught by the worker).
// c15deep: the current input is a very deep document; the indenting forms (quadratic output) are skipped for it.
var c15deep bool

func c15reencode(c *core.Ctx, m mxj.Map) {
	c.Count("decoded-maps-reencoded")
	m.Xml()
	m.Json()
	mxj.AnyXml(map[string]interface{}(m))
	if !c15deep {
		// (on a 20000-deep document the indenting forms and the leaf paths are quadratic in size by construction,
		// and encoding/gob itself copies nested interface values once per level)
		m.Gob()
		m.LeafNodes()
		m.LeafPaths(true)
		m.XmlIndent("", " ")
		m.JsonIndent("", " ")
		m.StringIndent()
	}
}

func c15reencodeSeq(c *core.Ctx, m mxj.MapSeq) {
	c.Count("decoded-maps-reencoded")
	m.Xml()
	mxj.Map(m).Json()
	if !c15deep {
		mxj.Map(m).LeafNodes()
		m.XmlIndent("", " ")
		m.StringIndent()
	}
}

func c15xmlInput(c *core.Ctx, b []byte, mutated bool) {
	c.Eval()
	if mutated {
		c.NonTrivial("xml", string(b))
	}
	accept, leading, why := stdFirstDoc(b)
	if accept {
		c.Count("xml:std-accepts")
	} else {
		c.Count("xml:std-rejects")
	}
	det := func(api string, m interface{}, err error) core.D {
		return core.D{"api": api, "input": string(b), "input_hex": fmt.Sprintf("%x", b), "std_tokenizer_accepts_first_document": accept, "std_tokenizer_says": why, "returned_map": jv.Show(m), "err": fmt.Sprint(err)}
	}
	checkMap := func(api string, m mxj.Map, err error) {
		switch {
		case accept && err != nil:
			c.Violate("c15-xml-rejects-valid:"+api, api+" failed although the std tokenizer accepts the first document", det(api, m, err))
		case !accept && err == nil:
			c.Violate("c15-xml-accepts-invalid:"+api, api+" returned a Map although the std tokenizer rejects the first document", det(api, m, err))
		case !accept && len(m) != 0:
			c.Violate("c15-xml-partial-map:"+api, api+" returned a partial Map together with an error", det(api, m, err))
		}
		if err == nil {
			c15reencode(c, m)
		}
	}
	m, err := mxj.NewMapXml(b)
	checkMap("NewMapXml", m, err)
	if err == nil && c.R.Intn(4) == 0 {
		mc, _ := mxj.NewMapXml(b, true)
		c15reencode(c, mc)
	}
	br := newBudget(b)
	m, err = mxj.NewMapXmlReader(br)
	checkMap("NewMapXmlReader", m, err)
	br2 := newBudget(b)
	m, _, err = mxj.NewMapXmlReaderRaw(br2)
	checkMap("NewMapXmlReaderRaw", m, err)
	// bulk forms: termination and no panic; error handler keeps going
	br3 := newBudget(b)
	br3.budget += 4 * len(b)
	n := 0
	mxj.HandleXmlReader(br3, func(mm mxj.Map) bool { n++; return n < 50 }, func(error) bool { n++; return n < 50 })
	br4 := newBudget(b)
	br4.budget += 4 * len(b)
	n = 0
	mxj.HandleXmlReaderRaw(br4, func(mm mxj.Map, _ []byte) bool { n++; return n < 50 }, func(error, []byte) bool { n++; return n < 50 })
	for i, x := range []*budgetReader{br, br2, br3, br4} {
		if x.over {
			c.Violate("c15-no-termination", "an XML reader form exceeded its Read-call budget", core.D{"form": i, "input": string(b), "reads": x.reads})
		}
	}

	// ---- sequence decoder ----
	var checkSeq func(api string, ms mxj.MapSeq, err error)
	checkSeqWith := func(api string, ms mxj.MapSeq, err error, accept bool, leading string) {
		switch {
		case leading != "" && (accept || true) && err == mxj.NoRoot:
			// documented no-root result: exactly one entry under the matching reserved key
			snap := mxj.VerifOptionSnapshot() // the reserved keys follow the global key prefix
			want := map[string]string{"comment": snap["commentK"].(string), "directive": snap["directiveK"].(string), "procinst": snap["procinstK"].(string)}[leading]
			if _, ok := ms[want]; !ok || len(ms) != 1 {
				c.Violate("c15-seq-noroot-shape", api+" NoRoot result does not have the documented one-entry shape", det(api, ms, err))
			}
			c.Count("xml:seq-noroot")
		case leading != "":
			// the tokenizer may also reject before the leading item is complete; then a plain error with no Map
			if err == nil {
				c.Violate("c15-seq-accepts-leading-misc:"+api, api+" returned a root Map although a comment/directive/instruction precedes the root", det(api, ms, err))
			} else if len(ms) != 0 {
				c.Violate("c15-xml-partial-map:"+api, api+" returned a partial Map together with an error", det(api, ms, err))
			}
		case accept && err != nil && c15custom != nil && (!c15custom.Strict || c15custom.AutoClose != nil):
			// the sequence decoder reads raw tokens (to keep prefixes) and checks nesting itself: the repairs a non-strict or
			// auto-closing tokenizer makes to the token stream (mismatched / missing end tags) do not exist at that level
			c.Count("xml:seq-strict-nesting-under-lenient-tokenizer")
		case accept && err != nil:
			c.Violate("c15-xml-rejects-valid:"+api, api+" failed although the std tokenizer accepts the first document", det(api, ms, err))
		case !accept && err == nil:
			c.Violate("c15-xml-accepts-invalid:"+api, api+" returned a Map although the std tokenizer rejects the first document", det(api, ms, err))
		case !accept && len(ms) != 0:
			c.Violate("c15-xml-partial-map:"+api, api+" returned a partial Map together with an error", det(api, ms, err))
		}
		if err == nil {
			c15reencodeSeq(c, ms)
		}
	}
	checkSeq = func(api string, ms mxj.MapSeq, err error) { checkSeqWith(api, ms, err, accept, leading) }
	ms, err := mxj.NewMapXmlSeq(b)
	checkSeq("NewMapXmlSeq", ms, err)
	if err == nil && c.R.Intn(3) == 0 {
		// the cast form of the sequence decoder: what it returns goes through the sequence encoders as well
		if msc, e := mxj.NewMapXmlSeq(b, true); e == nil {
			c15reencodeSeq(c, msc)
		}
		if msc, e := mxj.NewMapXmlSeqReader(newBudget(b), true); e == nil {
			c15reencodeSeq(c, msc)
		}
	}
	ms, err = mxj.NewMapXmlSeqReader(newBudget(b))
	checkSeq("NewMapXmlSeqReader", ms, err)
	ms, _, err = mxj.NewMapXmlSeqReaderRaw(newBudget(b))
	checkSeq("NewMapXmlSeqReaderRaw", ms, err)
	// NewMapFormattedXmlSeq documents one difference: runs of blank, tab, CR, LF between '>' and '<' are deleted first
	{
		fb := formattedRe.ReplaceAll(b, []byte("><"))
		fa, fl, _ := stdFirstDoc(fb)
		ms2, e := mxj.NewMapFormattedXmlSeq(b)
		checkSeqWith("NewMapFormattedXmlSeq", ms2, e, fa, fl)
	}
	var out []byte
	var berr error = io.EOF
	if !c15deep {
		out, berr = mxj.BeautifyXml(b, "", " ")
	}
	if berr == nil && leading == "" && !accept {
		c.Violate("c15-xml-accepts-invalid:BeautifyXml", "BeautifyXml succeeded although the std tokenizer rejects the first document", core.D{"input": string(b), "output": string(out)})
	}
}

func c15jsonInput(c *core.Ctx, b []byte, mutated bool) {
	c.Eval()
	c.Count("json:inputs")
	if mutated {
		c.NonTrivial("json", string(b))
	}
	var v interface{}
	derr := json.NewDecoder(bytes.NewReader(b)).Decode(&v)
	got, gerr := mxj.NewMapJson(b)
	wantErr := derr != nil
	switch v.(type) {
	case map[string]interface{}, []interface{}:
	default:
		wantErr = true
	}
	if len(b) == 0 {
		wantErr = false
	}
	if wantErr != (gerr != nil) || (gerr != nil && len(got) != 0) {
		c.Violate("c15-json-acceptance", "NewMapJson acceptance differs from encoding/json (or a partial Map came with the error)",
			core.D{"input": string(b), "input_hex": fmt.Sprintf("%x", b), "std_err": fmt.Sprint(derr), "err": fmt.Sprint(gerr), "returned_map": jv.Show(got)})
	}
	if gerr == nil {
		c15reencode(c, got)
	}
	brs := []*budgetReader{newBudget(b), newBudget(b), newBudget(b), newBudget(b)}
	for _, x := range brs[2:] {
		x.budget += 4 * len(b)
	}
	m, e := mxj.NewMapJsonReader(brs[0])
	if e == nil && len(m) > 0 {
		c15reencode(c, m)
	}
	_, _, e2 := mxj.NewMapJsonReaderRaw(brs[1])
	if _, isObj := v.(map[string]interface{}); isObj && derr == nil && gerr == nil && bytes.HasPrefix(bytes.TrimLeft(b, " \t\r\n"), []byte("{")) {
		// the input starts with a JSON object the std decoder accepts: the reader forms decode that same object
		c.Count("json:reader-acceptance-checked")
		if e != nil || e2 != nil || jv.Fp(m) != jv.Fp(got) {
			c.Violate("c15-json-reader-rejects-valid", "a JSON reader form fails (or returns another Map) on an input that starts with an object encoding/json and NewMapJson accept",
				core.D{"input": head(string(b), 300), "input_bytes": len(b), "NewMapJsonReader_err": fmt.Sprint(e), "NewMapJsonReaderRaw_err": fmt.Sprint(e2)})
		}
	}
	n := 0
	mxj.HandleJsonReader(brs[2], func(mxj.Map) bool { n++; return n < 50 }, func(error) bool { n++; return n < 50 })
	n = 0
	mxj.HandleJsonReaderRaw(brs[3], func(mxj.Map, []byte) bool { n++; return n < 50 }, func(error, []byte) bool { n++; return n < 50 })
	for i, x := range brs {
		if x.over {
			c.Violate("c15-no-termination", "a JSON reader form exceeded its Read-call budget", core.D{"form": i, "input": string(b), "reads": x.reads})
		}
	}
}

func head(s string, n int) string {
	if len(s) > n {
		return s[:n] + "..."
	}
	return s
}

// latin1Reader converts ISO-8859-1 to UTF-8; it implements Read only (what a charset package hands to
// xml.Decoder.CharsetReader) and converts at most a few bytes per call.
type latin1Reader struct {
	src  io.Reader
	pend []byte
}

func (l *latin1Reader) Read(p []byte) (int, error) {
	if len(p) == 0 {
		return 0, nil
	}
	if len(l.pend) == 0 {
		var b [3]byte
		n, err := l.src.Read(b[:])
		for _, ch := range b[:n] {
			if ch < 0x80 {
				l.pend = append(l.pend, ch)
			} else {
				l.pend = append(l.pend, 0xc0|ch>>6, 0x80|ch&0x3f)
			}
		}
		if n == 0 {
			return 0, err
		}
	}
	n := copy(p, l.pend)
	l.pend = l.pend[n:]
	return n, nil
}

func c15charsetReader(label string, input io.Reader) (io.Reader, error) {
	switch strings.ToLower(label) {
	case "iso-8859-1", "latin1", "latin-1":
		return &latin1Reader{src: input}, nil
	}
	return nil, fmt.Errorf("unsupported charset %q", label)
}

// c15charset: documents in a declared non-UTF-8 encoding, with a charset reader installed (through XmlCharsetReader or
// through CustomDecoder); the reference tokenizer gets the same reader.
func c15charset(c *core.Ctx) {
	r := c.R
	mxj.CustomDecoder = nil // (the case may have set one without a charset reader; XmlCharsetReader is ignored then)
	if r.Intn(2) == 0 {
		mxj.XmlCharsetReader = c15charsetReader
	} else {
		mxj.CustomDecoder = &xml.Decoder{Strict: true, CharsetReader: c15charsetReader}
	}
	c15custom = &xml.Decoder{Strict: true, CharsetReader: c15charsetReader}
	defer func() { c15custom = nil }()
	c.Count("special:declared-charset")
	docs := [][]byte{
		[]byte("<?xml version=\"1.0\" encoding=\"ISO-8859-1\"?><a b=\"caf\xe9\">na\xefve \xfcber<c>\xe9</c></a>"),
		[]byte("<?xml version='1.0' encoding='latin1'?>\n<r><k>\xe4\xf6\xfc</k><k>plain</k></r>"),
		[]byte("<?xml version=\"1.0\" encoding=\"ISO-8859-1\"?><a>" + strings.Repeat("\xe9x", 40+r.Intn(60)) + "</a>"),
		[]byte("<?xml version=\"1.0\" encoding=\"koi8-r\"?><a>x</a>"),
		[]byte("<?xml version=\"1.0\" encoding=\"ISO-8859-1\"?><a>\xe9</b>"),
	}
	for _, d := range docs {
		c15xmlInput(c, d, true)
	}
}

// c15deepJSON: objects / lists nested to depths around the limits a depth counter may have (int8, uint8, encoding/json's 10000).
func c15deepJSON(c *core.Ctx) {
	r := c.R
	for i := 0; i < 3; i++ {
		d := []int{126, 127, 128, 129, 130, 254, 255, 256, 257, 300, 1000, 9999, 10000, 10001, 10002}[r.Intn(15)]
		var b bytes.Buffer
		list := r.Intn(3) == 0
		if list {
			b.WriteString(`{"a":`)
			b.WriteString(strings.Repeat("[", d-1) + "1" + strings.Repeat("]", d-1) + "}")
		} else {
			b.WriteString(strings.Repeat(`{"a":`, d) + "1" + strings.Repeat("}", d))
		}
		if r.Intn(4) == 0 {
			b.WriteString(` {"next":1}`)
		}
		c.Count("special:deep-json")
		c.Max("max:json-depth", int64(d))
		c15deep = true
		c15jsonInput(c, b.Bytes(), true)
		c15deep = false
	}
}

func c15gobInput(c *core.Ctx, b []byte, mutated bool) {
	c.Eval()
	c.Count("gob:inputs")
	if mutated {
		c.NonTrivial("gob", string(b))
	}
	want := map[string]interface{}{}
	var werr error
	if len(b) > 0 {
		werr = gob.NewDecoder(bytes.NewReader(b)).Decode(&want)
	}
	if werr != nil {
		c.Count("gob:std-rejects")
	}
	got, gerr := mxj.NewMapGob(b)
	if (werr != nil) != (gerr != nil) {
		c.Violate("c15-gob-acceptance", "NewMapGob acceptance differs from encoding/gob", core.D{"input_hex": fmt.Sprintf("%x", b), "std_err": fmt.Sprint(werr), "err": fmt.Sprint(gerr)})
	} else if gerr == nil {
		if !jv.Equal(map[string]interface{}(got), want) {
			c.Violate("c15-gob-value", "NewMapGob value differs from encoding/gob's", core.D{"input_hex": fmt.Sprintf("%x", b), "observed": jv.Show(got), "expected": jv.Show(want)})
		}
		c15reencode(c, got)
	}
}

func mutateAll(c *core.Ctx, base []byte, f func(*core.Ctx, []byte, bool)) {
	f(c, base, false)
	for p := 0; p <= len(base); p++ {
		f(c, base[:p], true)
	}
	for p := 0; p < len(base); p++ {
		for _, h := range c15hostile {
			if base[p] == h {
				continue
			}
			m := append([]byte{}, base...)
			m[p] = h
			f(c, m, true)
		}
	}
}

var c15pathAtoms = []string{"", "a", "b", "doc", "*", "[", "]", "[0]", "[-1]", "[x]", "[99999999999]", "a[1]", "a[0]", "a[", "a]", "a[1][2]", "*[0]", "-", "#text", " ", "é", "a[-3]", "b[2147483648]", "k[]", "[1]a", "a[2147483647]", "a[4294967296]", "a[9223372036854775807]", "a[9223372036854775808]", "a[18446744073709551615]", "b[18446744073709551616]", "wide[9223372036854775807]"}
var c15subkeys = []string{"", ":", ":x", "k:", "k:v", "!:", "!", "!k:v:bool", "k:v:bool", "k:1:num:x", "k:*", "!k:*", "k:true:bool", "k:x:float", "!:*", "a:b", "::", "!a:1:num", "a:b:string"}
var c15pairs = []string{"a:.", "doc:..", "a.b:.", "k:...", "doc:.x", "", ":", "a:", ":b", "a:b:c", "a:b", "*:x", "a[0]:b", "a:b.*", "a:b[0]", "a.", ".a", "a..b:c", "doc:doc.x", "doc:n.", "a[-1]:q", "b[x]:q"}

func c15junkPath(r *rand.Rand) string {
	n := 1 + r.Intn(4)
	parts := make([]string, n)
	for i := range parts {
		parts[i] = c15pathAtoms[r.Intn(len(c15pathAtoms))]
	}
	return strings.Join(parts, ".")
}

func c15args(c *core.Ctx) {
	r := c.R
	if r.Intn(4) == 0 {
		// file-name arguments are strings too: every reader returns an error for a name it cannot read
		dir := c19scratch()
		reg := filepath.Join(dir, "c15.regular")
		os.WriteFile(reg, []byte("<a/>"), 0o644)
		for _, p := range hostilePaths(dir, reg) {
			c.Eval()
			c.Count("args:file-names")
			c.NonTrivial("file-name", p)
			_, e1 := mxj.NewMapsFromXmlFile(p)
			_, e2 := mxj.NewMapsFromXmlFileRaw(p)
			_, e3 := mxj.NewMapsFromJsonFile(p)
			_, e4 := mxj.NewMapsFromJsonFileRaw(p)
			if e1 == nil || e2 == nil || e3 == nil || e4 == nil {
				c.Violate("c15-bad-file-name-accepted", "a file reader returned no error for a name that cannot be read", core.D{"path": p, "errs": fmt.Sprint(e1, e2, e3, e4)})
			}
		}
		os.Remove(reg)
	}
	keys := []string{"a", "b", "doc", "k", "", "-x", "#text", "*", "a.b", "[0]", "é", "-", "#"}
	g := jv.GenOpt{Keys: keys, MaxFan: 3, WideProb: 50, ListInList: true, EmptyConts: true, Nulls: true, Scalars: func(r *rand.Rand) interface{} {
		switch r.Intn(7) {
		case 6:
			return mxj.Map{"k": "v", "a": mxj.Map{"b": 1}} // a nested value of the named type, as SetValueForPath(mxj.Map{...}) stores it
		case 0:
			return r.Intn(5)
		case 1:
			return []string{"x", "y"}
		default:
			return jv.DefScalar(r)
		}
	}}.Fresh()
	root := g.Map(r, 1+r.Intn(4))
	if r.Intn(2) == 0 {
		// a list with more members than any initial result capacity, few of which satisfy a given sub-key
		n := autoInt(r, 33, 300, 40) + r.Intn(8)
		wide := make([]interface{}, n)
		for i := range wide {
			wide[i] = map[string]interface{}{"k": []string{"v", "w", "x"}[i%3], "a": float64(i)}
			if i%5 == 0 {
				wide[i] = "scalar member"
			}
		}
		root[[]string{"wide", "a", "doc"}[r.Intn(3)]] = wide
	}
	m := mxj.Map(root)
	typed := r.Intn(2) == 0
	if typed {
		// values of the named type mxj.Map below the root, as a caller's SetValueForPath(mxj.Map{...}) leaves them
		m.SetValueForPath(mxj.Map{"k": "v", "sub": mxj.Map{"k": float64(1), "l": []interface{}{mxj.Map{"k": "w"}}}}, "typed")
	}
	errs := 0
	call := func(name string, f func() error) {
		c.Count("args:calls")
		if err := f(); err != nil {
			errs++
		}
	}
	for i := 0; i < 12; i++ {
		p := c15junkPath(r)
		if typed && r.Intn(3) == 0 {
			p = []string{"typed.k", "typed.sub.k", "typed", "typed.*", "typed.sub", "typed.sub.l.k", "*.sub.k", "typed.sub.l"}[r.Intn(8)]
		}
		sk := []string{}
		for j, n := 0, r.Intn(3); j < n; j++ {
			sk = append(sk, c15subkeys[r.Intn(len(c15subkeys))])
		}
		if r.Intn(4) == 0 {
			mxj.SetFieldSeparator([]string{"|", "", "::", "."}[r.Intn(4)])
		}
		c.NonTrivial("args", jv.Fp(root), p, fmt.Sprint(sk))
		call("ValuesForPath", func() error { _, e := m.ValuesForPath(p, sk...); return e })
		call("ValueForPath", func() error { _, e := m.ValueForPath(p); return e })
		call("ValueForPathString", func() error { _, e := m.ValueForPathString(p); return e })
		call("ValueOrEmptyForPathString", func() error { m.ValueOrEmptyForPathString(p); return nil })
		call("Exists", func() error { _, e := m.Exists(p, sk...); return e })
		call("ValuesForKey", func() error { _, e := m.ValuesForKey(c15pathAtoms[r.Intn(len(c15pathAtoms))], sk...); return e })
		call("ValuesForKey(*)", func() error {
			_, e := m.ValuesForKey("*", []string{"k:v", "!k:v", "k:none", "a:1:num", "k:*"}[r.Intn(5)])
			_, e2 := m.ValuesForPath([]string{"*", "wide", "*.*", "wide.*", "*.k"}[r.Intn(5)], []string{"k:v", "!k:w", "k:none"}[r.Intn(3)])
			if e == nil {
				e = e2
			}
			return e
		})
		call("ValueForKey", func() error { _, e := m.ValueForKey(keys[r.Intn(len(keys))], sk...); return e })
		call("PathsForKey", func() error { m.PathsForKey(keys[r.Intn(len(keys))]); return nil })
		call("PathForKeyShortest", func() error { m.PathForKeyShortest(keys[r.Intn(len(keys))]); return nil })
		call("Elements", func() error { _, e := m.Elements(p); return e })
		call("Attributes", func() error { _, e := m.Attributes(p); return e })
		call("Root", func() error { _, e := m.Root(); return e })
		call("LeafNodes", func() error { m.LeafNodes(r.Intn(2) == 0); m.LeafPaths(); m.LeafValues(true); return nil })
		// updates run on a copy
		cp := mxj.Map(jv.Copy(root).(jv.M))
		var nv interface{}
		switch r.Intn(8) {
		case 0:
			nv = map[string]interface{}{}
		case 1:
			nv = map[string]interface{}{"a": 1, "b": 2}
		case 2:
			nv = 7
		case 3:
			nv = nil
		case 4:
			nv = mxj.Map{keys[r.Intn(len(keys))]: "v"}
		default:
			nv = []string{"", "k", "k:v", ":v", "k:v:bool", "k:1:num", "k:1:int:x", ":", "a:true:bool", "a:x:num", "::"}[r.Intn(11)]
		}
		call("UpdateValuesForPath", func() error { _, e := cp.UpdateValuesForPath(nv, p, sk...); return e })
		call("SetValueForPath", func() error { return cp.SetValueForPath("v", p) })
		call("Remove", func() error { return cp.Remove(c15junkPath(r)) })
		call("RenameKey", func() error { return cp.RenameKey(c15junkPath(r), c15pathAtoms[r.Intn(len(c15pathAtoms))]) })
		pairs := []string{}
		for j, n := 0, 1+r.Intn(3); j < n; j++ {
			if r.Intn(2) == 0 {
				pairs = append(pairs, c15pairs[r.Intn(len(c15pairs))])
			} else {
				pairs = append(pairs, c15junkPath(r)+":"+c15junkPath(r))
			}
		}
		call("NewMap", func() error { _, e := m.NewMap(pairs...); return e })
		mxj.SetFieldSeparator()
		if jv.Cyclic(root) {
			c.Violate("c15-cyclic-after-query", "a query/NewMap call made the Map cyclic", core.D{"pairs": fmt.Sprint(pairs)})
			return
		}
	}
	c.Eval()
	c.Add("args:error-returned", int64(errs))
	// encoders on arbitrary Maps
	m.Xml()
	m.XmlIndent(" ", "\t")
	mxj.AnyXml(root)
	m.Json()
}

func c15special(c *core.Ctx) {
	r := c.R
	var docs [][]byte
	switch r.Intn(8) {
	case 7:
		c15charset(c)
		return
	case 6:
		c15deepJSON(c)
		return
	case 0: // deep nesting
		depth := 5000 + r.Intn(15001)
		var b bytes.Buffer
		for i := 0; i < depth; i++ {
			b.WriteString("<a>")
		}
		b.WriteString("x")
		for i := 0; i < depth; i++ {
			b.WriteString("</a>")
		}
		docs = append(docs, b.Bytes())
		c15deep = true
		defer func() { c15deep = false }()
		c.Count("special:deep")
		c.Max("max:depth", int64(depth))
	case 1: // stray end tags
		docs = append(docs, []byte("</a>"), []byte("</a><b/>"), []byte("<a></b>"), []byte("<a></a></a>"), []byte(" </x:y>"), []byte("<a><b></a></b>"), []byte("<!-- c --></a>"), []byte("<?pi x?></a>"), []byte("</>"))
	case 2: // mixed content
		docs = append(docs, []byte("<a>t<b/>u<!--c-->v<?p q?>w</a>"), []byte("<a><!--c-->t</a>"), []byte("<a>t<!DOCTYPE x>u</a>"), []byte("<a x='1'>t<b>u</b>v<b>w</b></a>"), []byte("<a><![CDATA[x]]>y<b/></a>"))
	case 3: // invalid UTF-8 / control
		docs = append(docs, []byte("<a>\xff\xfe</a>"), []byte("<a \xff='1'/>"), []byte("<\xffa/>"), []byte("<a>\x00</a>"), []byte("\xef\xbb\xbf<a/>"), []byte("\xff\xfe<\x00a\x00/\x00>\x00"), []byte("<a>&#0;</a>"), []byte("<a>&#xD800;</a>"), []byte("<a>&bogus;</a>"))
	case 4: // wide
		var b bytes.Buffer
		b.WriteString("<r>")
		for i, n := 0, 200+r.Intn(2000); i < n; i++ {
			fmt.Fprintf(&b, "<k%d a%d='v'>%d</k%d>", i%7, i%3, i, i%7)
		}
		b.WriteString("</r>")
		docs = append(docs, b.Bytes())
	default: // prolog / doctype / xmlns oddities
		docs = append(docs, []byte(`<?xml version="2.0"?><a/>`), []byte(`<?xml version="1.0" encoding="latin1"?><a/>`), []byte(`<!DOCTYPE a [<!ENTITY e "v">]><a>&e;</a>`), []byte(`<a xmlns:x="u" x:b="1" b="2"/>`), []byte(`<x:a/>`), []byte(`<a xmlns=""/>`), []byte(`<a:b:c/>`), []byte(`<a b="1" b="2"/>`), []byte(`<?xml?><a/>`), []byte(`<a/><b/>`), []byte("<a/>junk"),
			[]byte(`<a>&foo;</a>`), []byte(`<a b="&nbsp;"/>`), []byte(`<a>x<br>y</a>`), []byte(`<a><link>t</a>`), []byte(`<a b=c/>`), []byte("<a>\f<b>x</b></a>"), []byte("<a>\v<b/>\f</a>"), []byte("<a> \f <b/></a>"))
	}
	if c15custom != nil && !c15deep {
		docs = append(docs, []byte(`<a>&foo;</a>`), []byte(`<a b="&nbsp;"/>`), []byte(`<a>x<br>y</a>`), []byte(`<a b=c/>`))
	}
	for _, d := range docs {
		c15xmlInput(c, d, true)
	}
}

func (c15) Case(c *core.Ctx) {
	r := c.R
	defer ResetDefaults()
	c15custom = nil
	if k := c.Index % 8; (k == 0 || k == 1 || k == 4) && r.Intn(3) == 0 {
		// CustomDecoder: the decoders fail exactly when the tokenizer configured the same way rejects
		cd := &xml.Decoder{Strict: r.Intn(3) != 0}
		if r.Intn(3) != 0 {
			cd.Entity = map[string]string{"foo": "bar", "nbsp": "\u00a0"}
		}
		if r.Intn(3) == 0 {
			cd.AutoClose = xml.HTMLAutoClose
		}
		mxj.CustomDecoder = cd
		c15custom = &xml.Decoder{Strict: cd.Strict, Entity: cd.Entity, AutoClose: cd.AutoClose}
		defer func() { c15custom = nil }()
		c.Count("custom-decoder")
	}
	if k := c.Index % 8; (k == 0 || k == 1 || k == 4) && r.Intn(2) == 0 {
		// decoders and encoders are total under every option combination, not only the defaults
		cfg := GenCfg(r, true, true)
		cfg.Apply()
		if r.Intn(3) == 0 {
			// an attribute prefix longer than most keys (every place that slices a key by the prefix length)
			mxj.SetAttrPrefix([]string{"attr_", "Attr_", "@@@@", "__attr__", "-----"}[r.Intn(5)])
		}
		mxj.XMLEscapeChars(r.Intn(2) == 0 && !cfg.DecEsc)
		mxj.XmlCheckIsValid(r.Intn(4) == 0)
		if r.Intn(4) == 0 {
			mxj.XmlGoEmptyElemSyntax()
		}
		c.Count("non-default-options")
	}
	if c.Index%8 <= 1 && r.Intn(3) == 0 {
		mxj.CoerceKeysToSnakeCase(true) // (prefixed, hyphenated names through both decoders)
	}
	switch c.Index % 8 {
	case 0, 1:
		g := c15xmlgen
		if c.Index%8 == 1 {
			g = c15seqgen
		}
		var doc []byte
		for {
			doc = xt.Render(r, g.Gen(r, r.Intn(3)), xt.Style{})
			if r.Intn(4) == 0 {
				doc = append([]byte(xt.Prolog(r)), doc...)
			}
			if len(doc) <= 70 {
				break
			}
		}
		if c.WantSample() {
			c.Sample(core.D{"kind": "xml", "base_document": string(doc), "mutants": fmt.Sprintf("%d truncations + %d substitutions", len(doc)+1, len(doc)*len(c15hostile))})
		}
		mutateAll(c, doc, c15xmlInput)
		if c15custom != nil {
			// what the configured tokenizer treats differently: extra entities, void elements, unquoted attribute values
			mutateAll(c, []byte([]string{`<a b="&nbsp;">&foo;<c/></a>`, `<a>x<br>&foo;<link>y</a>`, `<a b=c>&bar;</a>`}[r.Intn(3)]), c15xmlInput)
		}
	case 2:
		var doc []byte
		for {
			m := map[string]interface{}{}
			for j, k := 0, 1+r.Intn(2); j < k; j++ {
				m[c13jsonStr(r)] = c13jsonVal(r, 2)
			}
			doc, _ = json.Marshal(m)
			if r.Intn(4) == 0 {
				doc, _ = json.Marshal([]interface{}{m, 1})
			}
			if len(doc) <= 60 {
				break
			}
		}
		mutateAll(c, doc, c15jsonInput)
	case 3:
		g := jv.GenOpt{Keys: []string{"a", "b", ""}, MaxFan: 2, EmptyConts: true, Nulls: false}
		m := g.Map(r, 1+r.Intn(2))
		b, err := mxj.Map(m).Gob()
		if err != nil {
			c.Harness("gob encode of a generated map failed: " + err.Error())
			return
		}
		if len(b) > 400 {
			b = b[:400]
		}
		// gob streams are long: all truncations, substitutions at a sample of positions
		c15gobInput(c, b, false)
		if len(b) < 400 {
			// the first document followed by more data: a second Gob() result, the same stream twice, stray bytes
			b2, _ := mxj.Map(g.Map(r, 1)).Gob()
			for _, tail := range [][]byte{b2, b, {0}, {3, 4, 0}, []byte("tail")} {
				c.Count("gob:document-then-more-data")
				c15gobInput(c, append(append([]byte{}, b...), tail...), true)
			}
		}
		for p := 0; p <= len(b); p++ {
			c15gobInput(c, b[:p], true)
		}
		for i := 0; i < 150; i++ {
			mm := append([]byte{}, b...)
			// substituted values stay below 0x80: gob writes larger unsigned integers with a byte-count prefix (0xF8..0xFF),
			// and encoding/gob allocates maps/slices by such an untrusted count - the std decoder itself (our reference as well
			// as NewMapGob, which only wraps it) can then exhaust memory, which no monitor can observe as a returned error
			mm[r.Intn(len(mm))] = byte(r.Intn(128))
			c15gobInput(c, mm, true)
		}
	case 4:
		c15special(c)
	default:
		c15args(c)
	}
}
