import json,glob,sys
for f in sorted(glob.glob('/verif/replays/%s-*.json'%sys.argv[1])):
    d=json.load(open(f)); print(f, d['msg']); 
    for k,v in d['detail'].items(): print('  ',k,':',str(v)[:int(sys.argv[2]) if len(sys.argv)>2 else 400])
