// Package mon holds one monitor per property C01..C20.
package mon

import (
	"fmt"
	"reflect"
	"sort"
	"strings"

	mxj "github.com/clbanning/mxj/v2"
	x2jw "github.com/clbanning/mxj/v2/x2j-wrapper"

	"verif/internal/core"
)

var registry = map[string]core.Monitor{}

func register(m core.Monitor) { registry[m.Meta().ID] = m }

func ByID(id string) core.Monitor { return registry[id] }

func All() []core.Monitor {
	ids := make([]string, 0, len(registry))
	for id := range registry {
		ids = append(ids, id)
	}
	sort.Strings(ids)
	out := make([]core.Monitor, 0, len(ids))
	for _, id := range ids {
		out = append(out, registry[id])
	}
	return out
}

// processStart is the hooked option state of a fresh process (taken in init,
// before any setter can have run).
var processStart = mxj.VerifOptionSnapshot()
var processStartW = x2jw.VerifOptionSnapshot()

// ResetDefaults puts every package-level option back to its documented default
// using only the public setters.
func ResetDefaults() {
	mxj.SetAttrPrefix("-")
	mxj.SetGlobalKeyMapPrefix("#")
	mxj.IncludeTagSeqNum(false)
	mxj.CoerceKeysToLower(false)
	mxj.CoerceKeysToSnakeCase(false)
	mxj.DisableTrimWhiteSpace(false)
	mxj.CastValuesToInt(false)
	mxj.CastValuesToFloat(true)
	mxj.CastValuesToBool(true)
	mxj.CastNanInf(false)
	mxj.SetCheckTagToSkipFunc(nil)
	mxj.HandleXMPPStreamTag(false)
	mxj.DecodeSimpleValuesAsMap(false)
	mxj.XmlDefaultEmptyElemSyntax()
	mxj.XmlCheckIsValid(false)
	mxj.XMLEscapeCharsDecoder(false)
	mxj.XMLEscapeChars(false)
	mxj.SetFieldSeparator()
	mxj.SetArraySize(0)
	mxj.LeafUseDotNotation(false)
	mxj.JsonUseNumber = false
	mxj.CustomDecoder = nil
	mxj.XmlCharsetReader = nil
	x2jw.CastNanInf(false)
}

// AssertDefaults checks through the hook that the process is in the default
// option state (every worker starts and ends there).
func AssertDefaults(c *core.Ctx, when string) {
	now := mxj.VerifOptionSnapshot()
	if !reflect.DeepEqual(now, processStart) {
		c.Harness(fmt.Sprintf("option state at %s differs from process start: %s", when, diffSnap(processStart, now)))
	}
	if noww := x2jw.VerifOptionSnapshot(); !reflect.DeepEqual(noww, processStartW) {
		c.Harness(fmt.Sprintf("x2j-wrapper option state at %s differs from process start: %s", when, diffSnap(processStartW, noww)))
	}
}

// ambientDecoderOptions sets, in a fraction of the cases, decoder/encoder options that the map-query and update
// functions do not document as affecting them (the caller must defer ResetDefaults).
func ambientDecoderOptions(c *core.Ctx, oneIn int) bool {
	r := c.R
	if r.Intn(oneIn) != 0 {
		return false
	}
	mxj.CoerceKeysToLower(r.Intn(2) == 0)
	mxj.CoerceKeysToSnakeCase(r.Intn(2) == 0)
	mxj.SetAttrPrefix([]string{"@", "", "-", "attr_"}[r.Intn(4)])
	mxj.DisableTrimWhiteSpace(r.Intn(2) == 0)
	mxj.DecodeSimpleValuesAsMap(r.Intn(2) == 0)
	mxj.CastNanInf(r.Intn(2) == 0)
	mxj.XMLEscapeChars(r.Intn(2) == 0)
	mxj.LeafUseDotNotation(r.Intn(2) == 0) // documented for the Leaf* functions only
	c.Count("ambient:decoder-options")
	return true
}

// AssertRestored: after the workload every option was set back to its default through the public setters; if the
// hooked state still differs from the fresh-process state the library cannot be restored - reported as a violation
// (whatever the property being checked, its oracle cannot be trusted in that state).
func AssertRestored(c *core.Ctx) {
	now := mxj.VerifOptionSnapshot()
	if !reflect.DeepEqual(now, processStart) {
		c.Index = -1
		c.Violate("options-not-restored-to-defaults", "after setting every option back to its default the package option state differs from a fresh process", core.D{"difference(fresh -> now)": diffSnap(processStart, now)})
	}
	if noww := x2jw.VerifOptionSnapshot(); !reflect.DeepEqual(noww, processStartW) {
		c.Index = -1
		c.Violate("options-not-restored-to-defaults", "x2j-wrapper option state differs from a fresh process", core.D{"difference": diffSnap(processStartW, noww)})
	}
}

func diffSnap(a, b map[string]interface{}) string {
	s := ""
	keys := make([]string, 0, len(a))
	for k := range a {
		keys = append(keys, k)
	}
	sort.Strings(keys)
	for _, k := range keys {
		if !reflect.DeepEqual(a[k], b[k]) {
			s += fmt.Sprintf("%s: %#v -> %#v; ", k, a[k], b[k])
		}
	}
	return s
}

// failedCalls: one case in oneIn, a handful of API calls that FAIL (ill-formed documents, malformed paths / sub-keys /
// key pairs / new values, missing files) or that take an error path inside (BeautifyXml on text the validity check
// rejects) are made before the monitored calls, under whatever options the case has set. A failed call must leave
// nothing behind: the hooked option snapshot is compared around the batch, and the monitored calls that follow are
// judged by the same oracle as ever.
func failedCalls(c *core.Ctx, oneIn int) {
	r := c.R
	if r.Intn(oneIn) != 0 {
		return
	}
	c.Count("prelude:failed-calls")
	before := mxj.VerifOptionSnapshot()
	m := mxj.Map{"a": []interface{}{map[string]interface{}{"k": "v", "n": 1.0}, map[string]interface{}{"k": "w"}}, "b": map[string]interface{}{"k": "x"}}
	for i, n := 0, 1+r.Intn(4); i < n; i++ {
		switch r.Intn(14) {
		case 0:
			mxj.BeautifyXml([]byte("<a-b><c-d>x</a-b>"), "", " ")
		case 1:
			mxj.BeautifyXml([]byte("<a-b>1 &amp; 2 &lt; 3</a-b>"), "", " ")
		case 2:
			mxj.NewMapXml([]byte("<a><b></a>"), r.Intn(2) == 0)
		case 3:
			mxj.NewMapXmlSeq([]byte("<a x='1'"))
		case 4:
			mxj.NewMapJson([]byte(`{"a":`))
		case 5:
			m.ValueForKey("k", "x")
			m.ValuesForKey("k", ":")
		case 6:
			m.ValuesForPath("a[x]")
			m.ValueForPath("a[-1]")
			m.ValuesForPath("a", "k")
		case 7:
			m.UpdateValuesForPath("k", "a")
			m.UpdateValuesForPath(17, "a")
		case 8:
			m.NewMap("a:")
			m.NewMap("a:b:c")
		case 9:
			mxj.NewMapXmlReader(strings.NewReader("<a>"))
			mxj.NewMapJsonReader(strings.NewReader("}"))
		case 10:
			m.RenameKey("zz.y", "q")
			m.Remove("zz.y")
			m.SetValueForPath(1, "b.k.z")
		case 11:
			mxj.NewMapsFromXmlFile("/nonexistent/dir/file.xml")
			mxj.NewMapsFromJsonFileRaw("/nonexistent/dir/file.json")
		case 12:
			mxj.NewMapFormattedXmlSeq([]byte("<a>\n <b>\n</a>"))
			mxj.AnyXml(make(chan int))
		default:
			mxj.HandleXmlReader(strings.NewReader("<a><b></a>"), func(mxj.Map) bool { return true }, func(error) bool { return false })
		}
	}
	if now := mxj.VerifOptionSnapshot(); !reflect.DeepEqual(now, before) {
		c.Violate("failed-call-left-option-state", "an API call that failed (or took an internal error path) left the package option state changed", core.D{"difference(before -> after)": diffSnap(before, now)})
	}
}
