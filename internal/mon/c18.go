package mon

import (
	"sort"
	"fmt"
	"math/rand"
	"reflect"
	"strings"

	mxj "github.com/clbanning/mxj/v2"
	x2jw "github.com/clbanning/mxj/v2/x2j-wrapper"

	"verif/internal/core"
	"verif/internal/jv"
)

// C18 - history checker over the hooked option state + behaviour probes.
type c18 struct{}

func init() { register(c18{}) }

func (c18) Meta() core.Meta {
	return core.Meta{
		ID: "C18", Level: "exploration",
		Rule:        "case i = f(seed,i): a history of 1..40 option-setter calls (explicit, toggling, repeated and multi-argument forms of every setter; attribute prefixes; single-character punctuation key prefixes; both escaping switches in either order; field separators; array sizes) interleaved with decode/encode/query calls on a fixed probe corpus. Online checker: after every setter call the hooked option snapshot (VerifOptionSnapshot) must equal the successor state of the documented option model (idempotence of explicit forms; toggle / disable / reset semantics of the argument-less forms; coupled escaping switches); a repeated explicit call must leave the snapshot unchanged. Non-interference probes around the relevant calls: attribute prefix / lower-casing leave the sequence codec and JSON unchanged, cast options leave un-cast decoding unchanged, encoder switches leave decoding unchanged, decoder-only options (case folding, snake case, sequence numbers, trimming, casts, ...) leave the encodings of hand-built Maps - with keys that resemble the attribute prefix in another letter case - unchanged, and every setter leaves a battery of queries and typed updates (written with the current field separator) unchanged. After the history every option is set back to its default through the public setters: the snapshot must equal the process-start snapshot and a behaviour battery (decode, encode, query through every API family, 60+ fingerprints) must equal the battery taken in the fresh process. Non-trivial: history with >=3 setter calls; distinct by hash(history).",
		Assumptions: []string{"the option model is written from the setters' documentation (DESIGN 3.3 optModel)", "key prefixes are single punctuation characters (the quantifier); a letter that occurs in the key names cannot be undone by design"},
		Anchors:     []string{"SetGlobalKeyMapPrefix", "PrependAttrWithHyphen", "SetAttrPrefix", "IncludeTagSeqNum", "CoerceKeysToLower", "DisableTrimWhiteSpace", "CoerceKeysToSnakeCase", "CastValuesToInt", "CastValuesToFloat", "CastValuesToBool", "CastNanInf", "SetCheckTagToSkipFunc", "HandleXMPPStreamTag", "DecodeSimpleValuesAsMap", "XmlGoEmptyElemSyntax", "XmlDefaultEmptyElemSyntax", "XmlCheckIsValid", "XMLEscapeChars", "XMLEscapeCharsDecoder", "SetFieldSeparator", "SetArraySize", "LeafUseDotNotation"},
		Floors:      map[string]int64{"setter-calls-checked": 20000, "toggle-forms": 3000, "repeat-idempotence-checks": 2000, "noninterference-probes": 3000, "restores-checked": 1500, "interleaved-api-calls": 5000},
		SetFloors:   map[string]int64{"setter-forms": 55},
	}
}

func (c18) Cases(tier string, race bool) int {
	if race {
		return 0
	}
	if tier == "thorough" {
		return 120000
	}
	return 8000
}

type optState map[string]interface{}

func (s optState) clone() optState {
	o := optState{}
	for k, v := range s {
		o[k] = v
	}
	return o
}

type setterCall struct {
	name  string           // rendered call, e.g. CoerceKeysToLower(true)
	class string           // "attr-case" | "cast" | "encoder" | ""
	apply func()           // the real call
	model func(s optState) // documented transition
	expl  bool             // explicit-value form (idempotent)
	tog   bool             // argument-less form
}

func boolSetter(r *rand.Rand, name, key, class string, f func(...bool)) setterCall {
	switch r.Intn(5) {
	case 0, 1:
		b := r.Intn(2) == 0
		return setterCall{name: fmt.Sprintf("%s(%v)", name, b), class: class, apply: func() { f(b) }, model: func(s optState) { s[key] = b }, expl: true}
	case 2, 3:
		return setterCall{name: name + "()", class: class, apply: func() { f() }, model: func(s optState) { s[key] = !s[key].(bool) }, tog: true}
	default:
		return setterCall{name: name + "(true,false)", class: class, apply: func() { f(true, false) }, model: func(s optState) {}} // two arguments: documented forms are 0 or 1
	}
}

// c18trimOff: the trim set in force while trimming is disabled. The documentation says "trimmed or not" and names no
// characters, so the set is not predicted: it is read from the hooked state the first time trimming is found disabled and
// must be the same ever after (and the default set must come back when trimming is enabled again).
var c18trimOffSeen interface{}

func c18trimOff() interface{} {
	if c18trimOffSeen == nil {
		if snap := mxj.VerifOptionSnapshot(); snap["disableTrimWhiteSpace"] == true {
			c18trimOffSeen = snap["trimRunes"]
		} else {
			return "?"
		}
	}
	return c18trimOffSeen
}

var c18reservedNames = map[string]string{"textK": "text", "seqK": "seq", "commentK": "comment", "attrK": "attr", "directiveK": "directive", "procinstK": "procinst", "targetK": "target", "instK": "inst"}

func genSetter(r *rand.Rand) setterCall {
	switch r.Intn(24) {
	case 0:
		b := r.Intn(2) == 0
		return setterCall{name: fmt.Sprintf("PrependAttrWithHyphen(%v)", b), class: "attr-case", expl: true, apply: func() { mxj.PrependAttrWithHyphen(b) }, model: func(s optState) {
			if b {
				s["attrPrefix"], s["lenAttrPrefix"] = "-", 1
			} else {
				s["attrPrefix"], s["lenAttrPrefix"] = "", 0
			}
		}}
	case 1:
		p := []string{"-", "@", "_", "attr_", "", "--", "é"}[r.Intn(7)]
		return setterCall{name: fmt.Sprintf("SetAttrPrefix(%q)", p), class: "attr-case", expl: true, apply: func() { mxj.SetAttrPrefix(p) }, model: func(s optState) { s["attrPrefix"], s["lenAttrPrefix"] = p, len(p) }}
	case 2:
		return boolSetter(r, "IncludeTagSeqNum", "includeTagSeqNum", "", mxj.IncludeTagSeqNum)
	case 3:
		return boolSetter(r, "CoerceKeysToLower", "lowerCase", "attr-case", mxj.CoerceKeysToLower)
	case 4:
		switch r.Intn(3) {
		case 0:
			return setterCall{name: "DisableTrimWhiteSpace()", tog: true, apply: func() { mxj.DisableTrimWhiteSpace() }, model: func(s optState) { s["disableTrimWhiteSpace"], s["trimRunes"] = true, c18trimOff() }}
		default:
			b := r.Intn(2) == 0
			return setterCall{name: fmt.Sprintf("DisableTrimWhiteSpace(%v)", b), expl: true, apply: func() { mxj.DisableTrimWhiteSpace(b) }, model: func(s optState) {
				s["disableTrimWhiteSpace"] = b
				if b {
					s["trimRunes"] = c18trimOff()
				} else {
					s["trimRunes"] = processStart["trimRunes"]
				}
			}}
		}
	case 5:
		return boolSetter(r, "CoerceKeysToSnakeCase", "snakeCaseKeys", "", mxj.CoerceKeysToSnakeCase)
	case 6:
		return boolSetter(r, "CastValuesToInt", "castToInt", "cast", mxj.CastValuesToInt)
	case 7:
		return boolSetter(r, "CastValuesToFloat", "castToFloat", "cast", mxj.CastValuesToFloat)
	case 8:
		return boolSetter(r, "CastValuesToBool", "castToBool", "cast", mxj.CastValuesToBool)
	case 9:
		return boolSetter(r, "CastNanInf", "castNanInf", "cast", mxj.CastNanInf)
	case 10:
		on := r.Intn(2) == 0
		return setterCall{name: fmt.Sprintf("SetCheckTagToSkipFunc(set=%v)", on), class: "cast", expl: true, apply: func() {
			if on {
				mxj.SetCheckTagToSkipFunc(skipTag)
			} else {
				mxj.SetCheckTagToSkipFunc(nil)
			}
		}, model: func(s optState) { s["checkTagToSkipSet"] = on }}
	case 11:
		return boolSetter(r, "HandleXMPPStreamTag", "handleXMPPStreamTag", "", mxj.HandleXMPPStreamTag)
	case 12:
		return boolSetter(r, "DecodeSimpleValuesAsMap", "decodeSimpleValuesAsMap", "", mxj.DecodeSimpleValuesAsMap)
	case 13:
		if r.Intn(2) == 0 {
			return setterCall{name: "XmlGoEmptyElemSyntax()", class: "encoder", expl: true, apply: mxj.XmlGoEmptyElemSyntax, model: func(s optState) { s["useGoXmlEmptyElemSyntax"] = true }}
		}
		return setterCall{name: "XmlDefaultEmptyElemSyntax()", class: "encoder", expl: true, apply: mxj.XmlDefaultEmptyElemSyntax, model: func(s optState) { s["useGoXmlEmptyElemSyntax"] = false }}
	case 14:
		switch r.Intn(3) {
		case 0:
			return setterCall{name: "XmlCheckIsValid()", class: "encoder", tog: true, apply: func() { mxj.XmlCheckIsValid() }, model: func(s optState) { s["xmlCheckIsValid"] = !s["xmlCheckIsValid"].(bool) }}
		default:
			b := r.Intn(2) == 0
			return setterCall{name: fmt.Sprintf("XmlCheckIsValid(%v)", b), class: "encoder", expl: true, apply: func() { mxj.XmlCheckIsValid(b) }, model: func(s optState) { s["xmlCheckIsValid"] = b }}
		}
	case 15, 16:
		// encoder-side escaping: on only if requested and decoder-side escaping is off
		if r.Intn(3) == 0 {
			return setterCall{name: "XMLEscapeChars()", class: "encoder", tog: true, apply: func() { mxj.XMLEscapeChars() }, model: func(s optState) {
				s["xmlEscapeChars"] = !s["xmlEscapeChars"].(bool) && !s["xmlEscapeCharsDecoder"].(bool)
			}}
		}
		b := r.Intn(2) == 0
		return setterCall{name: fmt.Sprintf("XMLEscapeChars(%v)", b), class: "encoder", expl: true, apply: func() { mxj.XMLEscapeChars(b) }, model: func(s optState) { s["xmlEscapeChars"] = b && !s["xmlEscapeCharsDecoder"].(bool) }}
	case 17, 18:
		if r.Intn(3) == 0 {
			return setterCall{name: "XMLEscapeCharsDecoder()", tog: true, apply: func() { mxj.XMLEscapeCharsDecoder() }, model: func(s optState) {
				s["xmlEscapeCharsDecoder"] = !s["xmlEscapeCharsDecoder"].(bool)
				if s["xmlEscapeCharsDecoder"].(bool) {
					s["xmlEscapeChars"] = false
				}
			}}
		}
		b := r.Intn(2) == 0
		return setterCall{name: fmt.Sprintf("XMLEscapeCharsDecoder(%v)", b), expl: true, apply: func() { mxj.XMLEscapeCharsDecoder(b) }, model: func(s optState) {
			s["xmlEscapeCharsDecoder"] = b
			if b {
				s["xmlEscapeChars"] = false
			}
		}}
	case 19:
		switch r.Intn(3) {
		case 0:
			return setterCall{name: "SetFieldSeparator()", class: "fieldsep", tog: true, apply: func() { mxj.SetFieldSeparator() }, model: func(s optState) { s["fieldSep"] = ":" }}
		case 1:
			return setterCall{name: `SetFieldSeparator("")`, class: "fieldsep", tog: true, apply: func() { mxj.SetFieldSeparator("") }, model: func(s optState) { s["fieldSep"] = ":" }}
		default:
			p := []string{"|", ";", "::", ":", ".", " ", "\t", "\u00a0", "\u2028"}[r.Intn(9)]
			return setterCall{name: fmt.Sprintf("SetFieldSeparator(%q)", p), class: "fieldsep", expl: true, apply: func() { mxj.SetFieldSeparator(p) }, model: func(s optState) { s["fieldSep"] = p }}
		}
	case 20:
		n := []int{0, -5, 1, 32, 33, 64, 1000}[r.Intn(7)]
		want, _ := processStart["defaultArraySize"].(int) // the minimum is whatever a fresh process starts with (no document states a number)
		if n > want {
			want = n
		}
		return setterCall{name: fmt.Sprintf("SetArraySize(%d)", n), expl: true, apply: func() {
			if got := mxj.SetArraySize(n); got != want {
				panic(fmt.Sprintf("harness: SetArraySize(%d) returned %d", n, got))
			}
		}, model: func(s optState) { s["defaultArraySize"] = want }}
	case 21:
		return boolSetter(r, "LeafUseDotNotation", "useDotNotation", "", func(b ...bool) {
			if len(b) <= 1 {
				mxj.LeafUseDotNotation(b...)
			}
		})
	default:
		p := []string{"#", "%", "_", "&", "$", "!", "~"}[r.Intn(7)]
		return setterCall{name: fmt.Sprintf("SetGlobalKeyMapPrefix(%q)", p), expl: true, apply: func() { mxj.SetGlobalKeyMapPrefix(p) }, model: func(s optState) {
			for k, n := range c18reservedNames {
				s[k] = p + n
			}
		}}
	}
}

// ---------- probes ----------

var c18docs = []string{
	`<Doc A-b="1" ns:C="x &amp; y"><Item-One id="7">t</Item-One><Item-One>1.50</Item-One><e/><m x="true"> pad <k>NaN</k></m><!--c--></Doc>`,
	`<a><b c-d="&lt;" E="2">5</b><b>true</b><x-y>é</x-y></a>`,
	`<r><list><v>1</v><w>2</w><v>3</v></list><?pi do?><t a="b">text</t></r>`,
	`<Stream:Stream To="x"><A-b c="1">1</A-b><k>2</k></Stream:Stream>`,
	`<stream:stream to="y"><a>1</a></stream:stream>`,
}
var c18json = []string{`{"a":{"-x":"1","#text":"<&>","l":[1,2,{"k":"v"}]},"b":null}`, `[{"q":1.5}]`}

func seqProbe() string {
	var b strings.Builder
	for _, d := range c18docs {
		ms, err := mxj.NewMapXmlSeq([]byte(d))
		x, _ := ms.Xml()
		b.WriteString(jv.Fp(ms) + fmt.Sprint(err) + string(x) + "\n")
	}
	return b.String()
}

// seqCastProbe: the sequence decoder with the cast flag.
func seqCastProbe() string {
	var b strings.Builder
	for _, d := range c18docs {
		ms, err := mxj.NewMapXmlSeq([]byte(d), true)
		b.WriteString(jv.Fp(ms) + fmt.Sprint(err) + "\n")
	}
	return b.String()
}

func jsonProbe() string {
	var b strings.Builder
	rd := strings.NewReader(" { \"a\" : [ 1 , \"x y\" ] }\n {\"b\":\" \\t \"} ")
	for i := 0; i < 3; i++ {
		m, raw, err := mxj.NewMapJsonReaderRaw(rd)
		b.WriteString(jv.Fp(m) + string(raw) + fmt.Sprint(err) + "|")
	}
	for _, d := range c18json {
		m, err := mxj.NewMapJson([]byte(d))
		j, _ := m.Json()
		ji, _ := m.JsonIndent("", " ", true)
		b.WriteString(jv.Fp(m) + fmt.Sprint(err) + string(j) + string(ji) + "\n")
	}
	return b.String()
}

// encodeProbe: encodings of hand-built Maps (nothing decoded) whose keys resemble the current attribute prefix in another
// letter case, contain hyphens / upper-case letters, look like reserved keys. Decoder-only options must leave it unchanged.
func encodeProbe() string {
	snap := mxj.VerifOptionSnapshot()
	pfx, _ := snap["attrPrefix"].(string)
	attrK, textK, seqK := snap["attrK"].(string), snap["textK"].(string), snap["seqK"].(string)
	up := strings.ToUpper(pfx)
	m := mxj.Map{"Doc": map[string]interface{}{pfx + "id": "1", up + "ID": "2", up + "id": "3", "Child-One": " pad ", "_seq": "7",
		"Item": []interface{}{map[string]interface{}{pfx + "A-b": "x", textK: "NaN"}, "1.50", true, nil}}}
	var b strings.Builder
	x, e := m.Xml()
	b.WriteString(string(x) + fmt.Sprint(e))
	x, e = m.XmlIndent("", " ")
	b.WriteString(string(x) + fmt.Sprint(e))
	x, e = mxj.AnyXml(map[string]interface{}(m), "Root-Tag")
	b.WriteString(string(x) + fmt.Sprint(e))
	x, e = m.Json()
	b.WriteString(string(x) + fmt.Sprint(e))
	ms := mxj.MapSeq{"Doc": map[string]interface{}{attrK: map[string]interface{}{"A-b": map[string]interface{}{textK: "1", seqK: 0}}, pfx + "Kid": map[string]interface{}{textK: " t ", seqK: 0}}}
	x, e = ms.Xml()
	b.WriteString(string(x) + fmt.Sprint(e))
	return b.String()
}

// queryProbe: queries and updates on a fixed JSON-decoded Map, with typed and untyped sub-keys and new values written with
// the CURRENT field separator. No option documents an effect on these (the separator only decides how the strings are split).
func queryProbe() string {
	sep, _ := mxj.VerifOptionSnapshot()["fieldSep"].(string)
	j := func(parts ...string) string { return strings.Join(parts, sep) }
	m := mxj.Map{"doc": map[string]interface{}{"Items": []interface{}{
		map[string]interface{}{"id": "1", "K-k": "a", "n": 1.0, "f": true},
		map[string]interface{}{"id": "2", "K-k": "c", "n": 2.5, "f": false, "-At": "x"}}, "id": "0", "NaN": "NaN"}}
	var b strings.Builder
	b.WriteString(fpVals(m.ValuesForPath("doc.Items", j("n", "2.5", "num"))))
	b.WriteString(fpVals(m.ValuesForPath("doc.Items", j("f", "true", "bool"), j("!K-k", "c"))))
	b.WriteString(fpVals(m.ValuesForKey("K-k", j("id", "2"))))
	b.WriteString(fpVals(m.ValuesForPath("doc.*.id")))
	b.WriteString(sortedStrings(m.PathsForKey("id")))
	for _, nv := range []string{j("id", "9", "num"), j("id", "7"), j("id", "true", "bool"), j("id", "1e3", "float"), j("id", "NaN", "num"), j("id", "10", "int")} {
		cp := mxj.Map(jv.Copy(map[string]interface{}(m)).(jv.M))
		n, err := cp.UpdateValuesForPath(nv, "doc.Items", j("K-k", "c"))
		b.WriteString(fmt.Sprint(n, err != nil) + jv.Fp(cp) + ";")
	}
	cp := mxj.Map(jv.Copy(map[string]interface{}(m)).(jv.M))
	e1 := cp.SetValueForPath("v", "doc.Items")
	e2 := cp.RenameKey("doc.id", "ID")
	e3 := cp.Remove("doc.NaN")
	b.WriteString(fmt.Sprint(e1, e2, e3) + jv.Fp(cp))
	nm, err := m.NewMap("doc.Items[1].K-k:first.Kk", "doc.id")
	b.WriteString(jv.Fp(nm) + fmt.Sprint(err))
	return b.String()
}

var c18decoderOnly = []string{"CoerceKeysToLower", "CoerceKeysToSnakeCase", "IncludeTagSeqNum", "DisableTrimWhiteSpace", "CastValuesTo", "CastNanInf", "SetCheckTagToSkipFunc",
	"HandleXMPPStreamTag", "DecodeSimpleValuesAsMap", "LeafUseDotNotation", "SetArraySize", "SetFieldSeparator"}

func c18isDecoderOnly(name string) bool {
	for _, p := range c18decoderOnly {
		if strings.HasPrefix(name, p) {
			return true
		}
	}
	return false
}

func decodeProbe(withCast bool) string {
	var b strings.Builder
	for _, d := range c18docs {
		m, err := mxj.NewMapXml([]byte(d))
		ms, err2 := mxj.NewMapXmlSeq([]byte(d))
		b.WriteString(jv.Fp(m) + fmt.Sprint(err) + jv.Fp(ms) + fmt.Sprint(err2) + "\n")
		if withCast {
			mc, e := mxj.NewMapXml([]byte(d), true)
			b.WriteString(jv.Fp(mc) + fmt.Sprint(e))
		}
	}
	for _, d := range c18json {
		m, err := mxj.NewMapJson([]byte(d))
		b.WriteString(jv.Fp(m) + fmt.Sprint(err))
	}
	return b.String()
}

// fieldsepProbe: what the field separator is NOT documented to affect (it separates the parts of newVal strings and sub-keys only).
func fieldsepProbe() string {
	m, _ := mxj.NewMapJson([]byte(`{"doc":{"items":[{"id":"1","k":"a"},{"id":"2"}],"id":"0","x|y":"p;q"}}`))
	nm, err := m.NewMap("doc.items[0].id:first", "doc.id:second.id", "doc.items")
	vs, e2 := m.ValuesForPath("doc.items.id")
	x, _ := m.Xml()
	return jv.Fp(nm) + fmt.Sprint(err) + fpVals(vs, e2) + string(x) + decodeProbe(false)
}

// behaviourBattery: decode / encode / query through every API family, as a list of fingerprints.
func behaviourBattery() []string {
	var out []string
	add := func(s string) { out = append(out, s) }
	for _, d := range c18docs {
		m, err := mxj.NewMapXml([]byte(d))
		add("NewMapXml:" + jv.Fp(m) + fmt.Sprint(err))
		mc, err := mxj.NewMapXml([]byte(d), true)
		add("NewMapXml(cast):" + jv.Fp(mc) + fmt.Sprint(err))
		ms, err := mxj.NewMapXmlSeq([]byte(d))
		add("NewMapXmlSeq:" + jv.Fp(ms) + fmt.Sprint(err))
		x, err := m.Xml()
		add("Xml:" + string(x) + fmt.Sprint(err))
		xi, err := m.XmlIndent("", " ")
		add("XmlIndent:" + string(xi) + fmt.Sprint(err))
		sx, err := ms.Xml()
		add("MapSeq.Xml:" + string(sx) + fmt.Sprint(err))
		sxi, err := ms.XmlIndent("", " ")
		add("MapSeq.XmlIndent:" + string(sxi) + fmt.Sprint(err))
		j, err := m.Json()
		add("Json:" + string(j) + fmt.Sprint(err))
		bx, err := mxj.BeautifyXml([]byte(d), "", " ")
		add("BeautifyXml:" + string(bx) + fmt.Sprint(err))
		var ls []string
		for _, l := range m.LeafNodes() {
			ls = append(ls, l.Path+"="+jv.Fp(l.Value))
		}
		add("LeafNodes:" + sortedStrings(ls))
		ls = nil
		for _, l := range m.LeafNodes(true) {
			ls = append(ls, l.Path+"="+jv.Fp(l.Value))
		}
		add("LeafNodes(noattr):" + sortedStrings(ls))
		root, _ := m.Root()
		el, err := m.Elements(root)
		add("Elements:" + fmt.Sprint(el, err))
		at, err := m.Attributes(root)
		add("Attributes:" + fmt.Sprint(at, err))
	}
	m, _ := mxj.NewMapJson([]byte(`{"doc":{"items":[{"id":"1","k":"a:b","n":1},{"id":"2","k":"c","n":2,"f":true}],"id":"0"}}`))
	add("ValuesForPath(subkey):" + fpVals(m.ValuesForPath("doc.items", "id:2")))
	add("ValuesForPath(subkey typed):" + fpVals(m.ValuesForPath("doc.items", "n:1:num", "!f:*")))
	add("ValuesForPath(subkey sep):" + fpVals(m.ValuesForPath("doc.items", "k:a:b")))
	add("ValuesForKey:" + fpVals(m.ValuesForKey("id")))
	add("PathsForKey:" + sortedStrings(m.PathsForKey("id")))
	cp := mxj.Map(jv.Copy(map[string]interface{}(m)).(jv.M))
	n, err := cp.UpdateValuesForPath("id:9", "doc.items", "k:c")
	add("UpdateValuesForPath:" + fmt.Sprint(n, err) + jv.Fp(cp))
	nm, err := m.NewMap("doc.items[0].id:first", "doc.id")
	add("NewMap:" + jv.Fp(nm) + fmt.Sprint(err))
	ax, err := mxj.AnyXml([]interface{}{map[string]interface{}{"a": "<"}, 1.5, nil})
	add("AnyXml:" + string(ax) + fmt.Sprint(err))
	wide := mxj.Map{"w": func() []interface{} {
		l := make([]interface{}, 70)
		for i := range l {
			l[i] = float64(i)
		}
		return l
	}()}
	vs, err := wide.ValuesForPath("w")
	add("ValuesForPath(wide):" + fmt.Sprint(len(vs), err))
	for _, d := range c18json {
		mj, err := mxj.NewMapJson([]byte(d))
		add("NewMapJson:" + jv.Fp(mj) + fmt.Sprint(err))
		x, err := mj.Xml()
		add("json->Xml:" + string(x) + fmt.Sprint(err))
	}
	return out
}

var freshBattery []string

func (c18) Case(c *core.Ctx) {
	r := c.R
	defer ResetDefaults()
	if freshBattery == nil {
		// first case in this (fresh) process: the worker has asserted the default option state
		freshBattery = behaviourBattery()
	}
	c.Eval()
	model := optState(mxj.VerifOptionSnapshot())
	if !reflect.DeepEqual(map[string]interface{}(model), processStart) {
		c.Harness("C18 case did not start in the default option state: " + diffSnap(processStart, model))
		return
	}
	n := 1 + r.Intn(40)
	var hist []string
	setters := 0
	for i := 0; i < n; i++ {
		if r.Intn(4) == 0 {
			// interleaved use of the library (must not disturb option state)
			switch r.Intn(6) {
			case 5:
				// the legacy wrapper's decoders with the recast flag: they use the core's option state, they do not set it
				d := c18docs[r.Intn(len(c18docs))]
				switch r.Intn(4) {
				case 0:
					x2jw.DocToMap(d, true)
				case 1:
					x2jw.ByteDocToMap([]byte(d), true)
				case 2:
					x2jw.ToMap(strings.NewReader(d), true)
				default:
					x2jw.DocToJson(d, true)
				}
				hist = append(hist, "x2j-wrapper decode (recast)")
			case 0:
				mxj.NewMapXml([]byte(c18docs[r.Intn(len(c18docs))]), r.Intn(2) == 0)
				hist = append(hist, "NewMapXml")
			case 1:
				ms, _ := mxj.NewMapXmlSeq([]byte(c18docs[r.Intn(len(c18docs))]))
				ms.Xml()
				hist = append(hist, "NewMapXmlSeq+Xml")
			case 2:
				m, _ := mxj.NewMapXml([]byte(c18docs[r.Intn(len(c18docs))]))
				m.Xml()
				m.XmlIndent("", " ")
				m.LeafNodes(true)
				hist = append(hist, "decode+Xml+LeafNodes")
			case 3:
				m, _ := mxj.NewMapJson([]byte(c18json[0]))
				m.ValuesForPath("a.l", "k"+fmt.Sprint(mxj.VerifOptionSnapshot()["fieldSep"])+"v")
				m.Json()
				hist = append(hist, "json+ValuesForPath")
			default:
				mxj.BeautifyXml([]byte(c18docs[0]), "", " ")
				hist = append(hist, "BeautifyXml")
			}
			c.Count("interleaved-api-calls")
			if now := mxj.VerifOptionSnapshot(); !reflect.DeepEqual(now, map[string]interface{}(model)) {
				c.Violate("c18-use-changed-options", "a decode/encode/query call changed the option state", core.D{"history": hist, "difference": diffSnap(model, now)})
				return
			}
			continue
		}
		sc := genSetter(r)
		setters++
		var before string
		switch sc.class {
		case "attr-case":
			before = seqProbe() + jsonProbe()
		case "cast":
			before = decodeProbe(false)
		case "encoder":
			before = decodeProbe(true)
		case "fieldsep":
			before = fieldsepProbe()
		}
		jsonBefore := ""
		if sc.class != "attr-case" {
			jsonBefore = jsonProbe() // no option setter documents an effect on the JSON codec
		}
		encBefore := ""
		if c18isDecoderOnly(sc.name) {
			encBefore = encodeProbe()
		}
		qBefore := ""
		if sc.class != "fieldsep" { // (the probe is written with the current separator; a value such as 2.5 contains the separator ".")
			qBefore = queryProbe()
		}
		seqCastBefore := ""
		if strings.HasPrefix(sc.name, "SetCheckTagToSkipFunc") {
			seqCastBefore = seqCastProbe() // the hook is documented for the Map decoder only
		}
		sc.apply()
		sc.model(model)
		hist = append(hist, sc.name)
		if seqCastBefore != "" {
			c.Count("noninterference-probes:seq-cast")
			if after := seqCastProbe(); after != seqCastBefore {
				c.Violate("c18-interference:skip-hook-changes-sequence-decoder", sc.name+" changed what the sequence decoder returns with the cast flag (the hook is documented for the Map decoder only)", core.D{"history": hist, "before": seqCastBefore, "after": after})
				return
			}
		}
		if qBefore != "" {
			c.Count("noninterference-probes:queries")
		}
		if qAfter := queryProbe(); qBefore != "" && qAfter != qBefore {
			c.Violate("c18-interference:option-changes-queries", sc.name+" changed the result of a path / key query or of an update (no option documents such an effect)", core.D{"history": hist, "before": qBefore, "after": qAfter})
			return
		}
		if encBefore != "" {
			c.Count("noninterference-probes:encoders")
			if encAfter := encodeProbe(); encAfter != encBefore {
				c.Violate("c18-interference:decoder-option-changes-encoding", sc.name+" (an option documented for decoding / queries only) changed the output of an encoder", core.D{"history": hist, "before": encBefore, "after": encAfter})
				return
			}
		}
		if jsonBefore != "" {
			if jsonAfter := jsonProbe(); jsonAfter != jsonBefore {
				c.Violate("c18-interference:json", sc.name+" changed the behaviour of the JSON codec", core.D{"history": hist, "before": jsonBefore, "after": jsonAfter})
				return
			}
		}
		if sc.class == "attr-case" {
			// the documented effect on the attribute / element queries: keys that begin with the prefix in force are the
			// attributes, named by what follows the prefix - whatever characters the names themselves begin with
			P, _ := mxj.VerifOptionSnapshot()["attrPrefix"].(string)
			e := map[string]interface{}{"child": "v", "_plain": "w", "-dash": "x", "attr_y": "z", "a": "1"}
			for _, nm := range []string{"id", "_x", "__y", "type", "attr_", "-h", "a", "@at", P + "dd", "r_t"} {
				e[P+nm] = "val"
			}
			var wantA, wantE []string
			for k := range e {
				if P != "" && strings.HasPrefix(k, P) {
					wantA = append(wantA, k[len(P):])
				} else {
					wantE = append(wantE, k)
				}
			}
			sort.Strings(wantA)
			sort.Strings(wantE)
			gotA, ea := mxj.Map{"e": e}.Attributes("e")
			gotE, ee := mxj.Map{"e": e}.Elements("e")
			c.Count("attribute-name-probes")
			if ea != nil || ee != nil || fmt.Sprint(gotA) != fmt.Sprint(wantA) || fmt.Sprint(gotE) != fmt.Sprint(wantE) {
				c.Violate("c18-attr-prefix-queries", "Attributes / Elements do not list the keys with / without the attribute prefix in force (names as they follow the prefix)", core.D{"history": hist, "prefix": P, "Attributes": fmt.Sprint(gotA, ea), "expected_attributes": fmt.Sprint(wantA), "Elements": fmt.Sprint(gotE, ee), "expected_elements": fmt.Sprint(wantE)})
				return
			}
		}
		c.Count("setter-calls-checked")
		c.Distinct("setter-forms", core.HashStr(sc.name))
		if sc.tog {
			c.Count("toggle-forms")
		}
		now := mxj.VerifOptionSnapshot()
		if !reflect.DeepEqual(now, map[string]interface{}(model)) {
			base := sc.name
			if i := strings.Index(base, "("); i > 0 {
				base = base[:i]
			}
			c.Violate("c18-setter-effect:"+base, sc.name+" left the option state different from what its documentation says", core.D{"history": hist, "difference(model -> observed)": diffSnap(model, now)})
			return
		}
		if sc.expl && r.Intn(3) == 0 {
			sc.apply()
			c.Count("repeat-idempotence-checks")
			if again := mxj.VerifOptionSnapshot(); !reflect.DeepEqual(again, now) {
				c.Violate("c18-not-idempotent", sc.name+" called twice differs from calling it once", core.D{"history": hist, "difference": diffSnap(now, again)})
				return
			}
		}
		if before != "" {
			c.Count("noninterference-probes")
			var after string
			switch sc.class {
			case "attr-case":
				after = seqProbe() + jsonProbe()
			case "cast":
				after = decodeProbe(false)
			case "encoder":
				after = decodeProbe(true)
			case "fieldsep":
				after = fieldsepProbe()
			}
			if after != before {
				c.Violate("c18-interference:"+sc.class, sc.name+" changed a behaviour it does not document ("+map[string]string{"attr-case": "sequence codec / JSON", "cast": "un-cast decoding", "encoder": "decoding", "fieldsep": "NewMap key pairs, path queries without sub-keys, decoding/encoding"}[sc.class]+")", core.D{"history": hist, "before": before, "after": after})
				return
			}
		}
	}
	if setters >= 3 {
		c.NonTrivial(strings.Join(hist, ";"))
	}
	if c.WantSample() && setters >= 5 && len(hist) < 14 {
		c.Sample(core.D{"history": hist})
	}
	// ---- restore defaults, compare with the fresh process ----
	ResetDefaults()
	c.Count("restores-checked")
	if now := mxj.VerifOptionSnapshot(); !reflect.DeepEqual(now, processStart) {
		c.Violate("c18-restore-state", "setting every option back to its default does not restore the fresh-process option state", core.D{"history": hist, "difference(fresh -> now)": diffSnap(processStart, now)})
		return
	}
	bat := behaviourBattery()
	for i := range bat {
		if i >= len(freshBattery) || bat[i] != freshBattery[i] {
			c.Violate("c18-restore-behaviour", "after restoring the defaults a decoder/encoder/query behaves differently from a fresh process", core.D{"history": hist, "fresh": freshBattery[i], "now": bat[i]})
			return
		}
	}
}
