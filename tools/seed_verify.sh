#!/bin/bash
# usage: tools/seed_verify.sh <Cnn> <A|B> [patchfile] -- verifies a seeded change in a scratch worktree and against the checks
# prints one status line; leaves nothing behind
export GOFLAGS=-mod=mod GOPROXY=off GOSUMDB=off GOTOOLCHAIN=local
id=$1; k=$2; src=${4:-/tmp/seed-out/$id}; patch=${3:-$src/patch$k.diff}; demo=$src/demo${k}_test.go
wt=$(mktemp -d /tmp/sv-XXXXXX); rmdir $wt
git -C /repo worktree add --detach $wt HEAD >/dev/null 2>&1 || { echo "$id$k WORKTREE-FAIL"; exit 1; }
cleanup() { git -C /repo worktree remove --force $wt >/dev/null 2>&1; rm -rf $wt; }
trap cleanup EXIT
dir=$(head -1 $demo | sed -n 's|^// dir: *||p'); dir=${dir:-.}
tname=$(grep -o 'func Test[A-Za-z0-9_]*' $demo | head -1 | sed 's/func //')
cd $wt
if ! git apply --check $patch 2>/dev/null; then echo "$id$k PATCH-DOES-NOT-APPLY"; exit 2; fi
cp $demo $dir/zz_seeded_demo_test.go
base=$(go test -vet=off -count=1 -run "^${tname}\$" ./$dir 2>&1 | tail -1 | cut -c1-60)
git apply $patch
rm $dir/zz_seeded_demo_test.go
suite=$(go test -vet=off -count=1 . ./j2x ./x2j ./x2j-wrapper 2>&1 | grep -c '^ok')
cp $demo $dir/zz_seeded_demo_test.go
withp=$(go test -vet=off -count=1 -run "^${tname}\$" ./$dir 2>&1 | grep -E '^(ok|FAIL|---)' | head -1 | cut -c1-60)
case "$withp" in ok*) # a pure data race shows only under the race detector
  withp=$(go test -race -vet=off -count=1 -run "^${tname}\$" ./$dir 2>&1 | grep -E '^(ok|FAIL|---)' | head -1 | cut -c1-60); [ -n "$withp" ] && withp="(with -race) $withp";;
esac
echo "$id$k demo-clean=[$base] suite-ok-pkgs=$suite demo-patched=[$withp]"
