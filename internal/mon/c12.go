package mon

import (
	"encoding/json"
	"fmt"
	"strings"

	mxj "github.com/clbanning/mxj/v2"
	"github.com/clbanning/mxj/v2/j2x"

	"verif/internal/core"
	"verif/internal/jv"
)

// C12 - NewMap: projection content and receiver integrity.
type c12 struct{}

func init() { register(c12{}) }

func (c12) Meta() core.Meta {
	return core.Meta{
		ID: "C12", Level: "exploration",
		Rule:        "case i = f(seed,i): JSON/XML-shaped Map + 1..4 key pairs old:new. Old parts are plain/wildcard/indexed paths derived from the Map (values that are maps and lists are preferred: aliasing only matters then), new parts are dot-paths that are disjoint, share a prefix, are equal, or extend one another (n0 / n0.sub), now and then with blank-edged segments, empty segments or a trailing dot; keys in 1/4 of the cases from the hostile alphabet (blank-edged names beside their twins, digit strings, '/'); 1/6 of the cases carry a malformed pair (old:, :new, a:b:c, wildcard or index in new). Chain mode (1/5): 3..5 pairs with new paths P,..,P,P.sub[,P.sub.x] in that order, lists inside lists allowed, receiver clause only. Monitors: receiver fingerprint before == after for every pair list; for pair lists in which no new path equals or extends another the result equals the reference projection (ValuesForPath(old) as single value or list at each new path, empty olds skipped, nothing else); malformed pairs => error; j2x.JsonNewJson agrees. Non-trivial: >=2 pairs with non-empty old values; distinct by hash(map,pairs).",
		Assumptions: []string{"reference projection uses the C07 reference denotation of the old paths", "an empty-string pair argument is skipped (code comment; docs silent) and is not generated"},
		Anchors:     []string{"Map.NewMap", "addNewVal", "j2x.JsonNewJson"},
		Floors:      map[string]int64{"pairs:overlapping": 1000, "pairs:exact-content-checked": 3000, "old:container-valued": 2000, "old:multi-valued": 300, "malformed": 1000, "newpath:shared-prefix": 300},
	}
}

func (c12) Cases(tier string, race bool) int {
	if race {
		return 0
	}
	if tier == "thorough" {
		return 1000000
	}
	return 100000
}

func c12place(n map[string]interface{}, path []string, v interface{}) {
	m := n
	for i, k := range path {
		if i == len(path)-1 {
			m[k] = v
			return
		}
		nx, ok := m[k].(map[string]interface{})
		if !ok {
			nx = map[string]interface{}{}
			m[k] = nx
		}
		m = nx
	}
}

func (c12) Case(c *core.Ctx) {
	r := c.R
	keys := keyAlphabet(r, c07keys)
	// chain mode: 3..5 pairs whose new paths form a chain P, P, .., P.sub[, P.sub.x] in that order (values of every
	// kind - scalars, maps, lists, lists inside lists - are put at P one after the other, then a later pair has to
	// walk through what is there). Only the receiver clause is decided for such lists (overlapping new paths).
	chain := r.Intn(5) == 0
	g := jv.GenOpt{Keys: keys, MaxFan: 3, WideProb: 40, EmptyConts: true, Nulls: true, Scalars: c07scalar, ListInList: chain && r.Intn(2) == 0}.Fresh()
	root := jv.M{"doc": g.Value(r, 1+r.Intn(5), false)}
	if r.Intn(4) == 0 {
		root = g.Map(r, 1+r.Intn(4))
	}
	plantedLL, llTwo := false, false
	if chain && r.Intn(2) == 0 {
		plantedLL = true
		// a list whose only member is a list that holds a map: the old path "ll" (or "ll[0]") yields ONE value, a list
		inner := jv.L{g.Map(r, 1+r.Intn(2)), "s", g.Map(r, 1)}
		if r.Intn(2) == 0 {
			inner = jv.L{nil, g.Map(r, 2)}
		}
		root["ll"] = jv.L{inner}
		if r.Intn(3) == 0 {
			root["ll"] = jv.L{"first", inner}
			llTwo = true
		}
	}
	if r.Intn(6) == 0 {
		c.Add("shape:aliased-submaps", int64(jv.Alias(r, root, 1+r.Intn(2), nil)))
	}
	before := jv.Fp(root)
	orig := jv.Copy(root)
	anyWild := false
	np := 1 + r.Intn(4)
	if chain {
		np = 3 + r.Intn(3)
		c.Count("pairs:chain")
	}
	type pair struct {
		old  []seg
		newp []string
		spec string
	}
	var pairs []pair
	var specs []string
	overlapping, sharedPrefix := false, false
	for j := 0; j < np; j++ {
		segs := genPath(r, root, append([]string{"doc"}, keys...), r.Intn(3) == 0, r.Intn(3) == 0)
		for i := range segs {
			if segs[i].name == "*" {
				segs[i].idx = -1
			}
		}
		// prefer container-valued olds: truncate the path while it denotes only scalars
		for len(segs) > 1 && r.Intn(2) == 0 {
			vs := refEval(root, segs)
			cont := false
			for _, v := range vs {
				switch v.(type) {
				case map[string]interface{}, []interface{}:
					cont = true
				}
			}
			if cont {
				break
			}
			segs = segs[:len(segs)-1]
		}
		var newp []string
		switch r.Intn(7) {
		case 6:
			// new paths are split at '.' exactly as ValuesForPath reads them: blanks are part of a key, an empty segment
			// is the key "" (only one trailing dot is dropped)
			newp = [][]string{{"n0 ", fmt.Sprintf("s%d", j)}, {fmt.Sprintf(" n%d", j)}, {"e", "", fmt.Sprintf("s%d", j)}, {"", fmt.Sprintf("lead%d", j)}, {fmt.Sprintf("t%d", j), ""}, {fmt.Sprintf("n%d\u00a0", j)}, {""}}[r.Intn(7)]
			c.Count("newpath:blank-edge-or-empty-segment")
		case 0:
			newp = []string{"n0", fmt.Sprintf("sub%d", j)}
		case 1:
			newp = []string{"n0"}
		case 2:
			newp = []string{fmt.Sprintf("n%d", j), "x", "y"}
		case 3:
			newp = []string{"m", fmt.Sprintf("s%d", j)}
		default:
			newp = []string{fmt.Sprintf("n%d", j)}
		}
		if chain {
			ext := 1 + r.Intn(2) // the last one or two pairs extend P
			switch {
			case j < np-ext:
				newp = []string{"n0"}
			case j == np-1 && ext == 2 && r.Intn(2) == 0:
				newp = []string{"n0", "sub", "x"}
			default:
				newp = []string{"n0", "sub"}
			}
			if plantedLL && j == 0 {
				segs = []seg{{name: "ll", idx: -1}}
				if llTwo {
					segs[0].idx = 1
				} else if r.Intn(2) == 0 {
					segs[0].idx = 0
				}
			}
		}
		p := pair{old: segs, newp: newp}
		p.spec = pathString(segs) + ":" + strings.Join(newp, ".")
		if newp[len(newp)-1] == "" {
			p.spec += "." // one trailing dot is dropped: a final "" key needs two
		} else if r.Intn(12) == 0 {
			p.spec += "."
		}
		if numIndexed(segs) == 0 && !hasWildcard(segs) && r.Intn(5) == 0 && !chain {
			// shorthand "old" == "old:old"
			p.spec = pathString(segs)
			p.newp = strings.Split(p.spec, ".")
		}
		anyWild = anyWild || hasWildcard(segs)
		pairs = append(pairs, p)
		specs = append(specs, p.spec)
	}
	if r.Intn(6) == 0 {
		// a top-level entry whose KEY is the text of one of the pairs ("old:new"): no pair addresses it
		sp := pairs[r.Intn(len(pairs))].spec
		if strings.Contains(sp, ":") && !strings.ContainsAny(sp, "*[") {
			root[sp] = jv.M{"bystander": "named like a pair"}
			before, orig = jv.Fp(root), jv.Copy(root)
			c.Count("bystander-key-named-like-a-pair")
		}
	}
	for i := range pairs {
		for j := range pairs {
			if i == j {
				continue
			}
			a, b := strings.Join(pairs[i].newp, ".")+".", strings.Join(pairs[j].newp, ".")+"."
			if strings.HasPrefix(a, b) {
				overlapping = true
			} else if pairs[i].newp[0] == pairs[j].newp[0] {
				sharedPrefix = true
			}
		}
	}
	malformed := ""
	if r.Intn(6) == 0 {
		malformed = []string{"doc:", ":n9", "a:b:c", "doc:n.*", "doc:n[0]", "doc.*", "doc.a[0]", ":"}[r.Intn(8)]
		pos := r.Intn(len(specs) + 1)
		specs = append(specs[:pos], append([]string{malformed}, specs[pos:]...)...)
		c.Count("malformed")
	}
	if ambientDecoderOptions(c, 6) {
		defer ResetDefaults()
	}
	if r.Intn(4) == 0 {
		// ambient option that NewMap does not document as affecting it
		mxj.SetFieldSeparator([]string{"|", ";", "."}[r.Intn(3)])
		defer mxj.SetFieldSeparator()
		c.Count("ambient:fieldsep")
	}
	c.Eval()
	failedCalls(c, 8)
	if r.Intn(10) == 0 {
		e1, er1 := mxj.Map(root).NewMap()
		if er1 != nil || len(e1) != 0 {
			c.Violate("c12-content", "NewMap() without key pairs is not an empty Map", core.D{"result": jv.Show(e1), "err": fmt.Sprint(er1)})
		} else {
			e1["written-by-the-caller"] = c.Index // the result belongs to the caller
			if e2, _ := (mxj.Map{"other": 1}).NewMap(); len(e2) != 0 {
				c.Violate("c12-content", "NewMap() without key pairs returned a Map that an earlier caller had written to", core.D{"result": jv.Show(e2)})
			}
		}
		c.Count("zero-pairs")
	}
	res, err := mxj.Map(root).NewMap(specs...)
	if jv.Cyclic(root) || jv.Cyclic(map[string]interface{}(res)) {
		class := "c12-receiver-modified"
		if overlapping {
			class = "c12-receiver-modified-overlapping-newpaths"
		}
		c.Violate(class, "NewMap made the receiver (or its result) contain itself: a cyclic Map", core.D{"map": before, "pairs": fmt.Sprint(specs)})
		return
	}
	det := core.D{"map": before, "pairs": fmt.Sprint(specs), "result": jv.Show(res), "err": fmt.Sprint(err)}
	if after := jv.Fp(root); after != before {
		det["after"] = after
		det["first_difference(before vs after)"] = jv.Diff(orig, map[string]interface{}(root))
		class := "c12-receiver-modified"
		if overlapping {
			class = "c12-receiver-modified-overlapping-newpaths"
		}
		c.Violate(class, "NewMap modified its receiver", det)
		return
	}
	if malformed != "" {
		if err == nil {
			c.Violate("c12-malformed-accepted", "NewMap accepted a malformed key pair", det)
		}
		return
	}
	if err != nil {
		c.Violate("c12-error", "NewMap rejected well-formed key pairs", det)
		return
	}
	if overlapping {
		c.Count("pairs:overlapping")
		return
	}
	if sharedPrefix {
		c.Count("newpath:shared-prefix")
	}
	exp := map[string]interface{}{}
	nonEmpty := 0
	for _, p := range pairs {
		vals := refEval(root, p.old)
		if len(vals) == 0 {
			continue
		}
		nonEmpty++
		var nv interface{} = vals
		if len(vals) == 1 {
			nv = vals[0]
		} else {
			c.Count("old:multi-valued")
		}
		switch nv.(type) {
		case map[string]interface{}, []interface{}:
			c.Count("old:container-valued")
		}
		c12place(exp, p.newp, nv)
	}
	c.Count("pairs:exact-content-checked")
	if nonEmpty >= 2 {
		c.NonTrivial(before, fmt.Sprint(specs))
	}
	if c.WantSample() && nonEmpty >= 2 && len(before) < 300 {
		c.Sample(core.D{"map": before, "pairs": specs, "expected": jv.Show(exp)})
	}
	// wildcard olds enumerate in hash order: compare lists under new paths as multisets in that case
	if !c12equal(exp, map[string]interface{}(res), anyWild) {
		det["expected"] = jv.Show(exp)
		det["first_difference(expected vs observed)"] = jv.Diff(exp, map[string]interface{}(res))
		c.Violate("c12-content", "NewMap result is not the requested projection", det)
		return
	}
	if r.Intn(5) == 0 {
		if jb, e := json.Marshal(root); e == nil && jsonSafeKeys(root) {
			out, e2 := j2x.JsonNewJson(jb, specs...)
			var dec interface{}
			if e2 == nil {
				e2 = json.Unmarshal(out, &dec)
			}
			if e2 != nil || !c12equal(exp, dec, anyWild) {
				c.Violate("c12-j2x", "j2x.JsonNewJson is not the encoding of the projection", core.D{"json": string(jb), "pairs": fmt.Sprint(specs), "out": string(out), "expected": jv.Show(exp), "err": fmt.Sprint(e2)})
			}
			c.Count("api:j2x.JsonNewJson")
		}
	}
}

// c12equal compares trees; when unordered, lists directly under map entries are compared as multisets.
func c12equal(a, b interface{}, unordered bool) bool {
	if !unordered {
		return jv.Equal(a, b)
	}
	switch x := a.(type) {
	case map[string]interface{}:
		y, ok := b.(map[string]interface{})
		if !ok || len(x) != len(y) {
			return false
		}
		for k, v := range x {
			w, ok := y[k]
			if !ok {
				return false
			}
			if lv, isL := v.([]interface{}); isL {
				lw, isL2 := w.([]interface{})
				if !isL2 || !jv.MultisetEqual(lv, lw) {
					return false
				}
				continue
			}
			if !c12equal(v, w, unordered) {
				return false
			}
		}
		return true
	}
	return jv.Equal(a, b)
}
