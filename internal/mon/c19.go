package mon

import (
	"bytes"
	"encoding/json"
	"encoding/xml"
	"io"
	"fmt"
	"math/rand"
	"os"
	"os/exec"
	"path/filepath"
	"reflect"
	"runtime"
	"strings"
	"syscall"
	"time"

	mxj "github.com/clbanning/mxj/v2"

	"verif/internal/core"
	"verif/internal/jv"
	"verif/internal/xt"
)

// C19 - Maps written to files, gob or Copy are read back equal; damaged files give an error plus the Maps read so far.
type c19 struct{}

func init() { register(c19{}) }

func (c19) Meta() core.Meta {
	return core.Meta{
		ID: "C19", Level: "fault_enumeration",
		Rule:        "case i = f(seed,i): a list of 1..6 Maps from the C02 domain (decoded generated documents) or the C06 domain (JSON objects with non-null scalars, strings with braces, quotes, backslashes, trailing backslash) is written with XmlFile / XmlFileIndent / JsonFile / JsonFileIndent (random blank indent strings) and read back with NewMapsFrom{Xml,Json}File and the Raw forms: same count and order; XML: each equals NewMapXml of its own encoding, JSON: each equals the original; Raw contains each document's text. Gob->NewMapGob and Copy return deeply equal Maps. Fault enumeration on the written file (files <= 400 bytes): EVERY truncation point (the reader must return exactly the Maps whose documents are complete, with an error iff the cut falls inside a document) and a hostile single-byte substitution at EVERY offset (no panic, termination, the Maps that lie entirely before the damaged byte are returned intact). A substituted byte after which the file is malformed (XML: rejected by the strict std tokenizer; JSON: a closing brace that closes nothing) must give an error. OS-level fault injection (strace -e inject=read:error=EIO:when=K on the data file, K sampled; a few per shard in quick, hundreds in thorough): error returned together with exactly the Maps completed before byte K. Missing file, directory and non-regular file give an error. Non-trivial: >=2 Maps or a damaged file; distinct by hash(file bytes, fault).",
		Assumptions: []string{"gob does not transmit the difference between an empty and a nil list (encoding/gob semantics); they are compared as equal", "strace-based injection is skipped (and counted) if strace cannot attach in the sandbox"},
		Anchors:     []string{"Maps.XmlFile", "Maps.XmlFileIndent", "Maps.JsonFile", "Maps.JsonFileIndent", "NewMapsFromXmlFile", "NewMapsFromXmlFileRaw", "NewMapsFromJsonFile", "NewMapsFromJsonFileRaw", "Map.Gob", "NewMapGob", "Map.Copy"},
		Floors:      map[string]int64{"files-written": 300, "truncations": 20000, "substitutions": 20000, "truncation:inside-document": 20000, "truncation:between-documents": 500, "gob-roundtrips": 300, "bad-path-checks": 200},
	}
}

func (c19) Cases(tier string, race bool) int {
	if race {
		return 0
	}
	if tier == "thorough" {
		return 16000
	}
	return 420
}

func c19scratch() string {
	dir := os.Getenv("VERIF_SCRATCH")
	if dir == "" {
		dir = filepath.Join(".build", "scratch")
	}
	os.MkdirAll(dir, 0o755)
	return dir
}

// hostilePaths: names no file reader can read: missing, a directory, a device, a path THROUGH a regular file, a name
// longer than NAME_MAX, a name with a NUL byte, the empty name.
func hostilePaths(dir, regularFile string) []string {
	return []string{filepath.Join(dir, "does-not-exist"), dir, "/dev/null", filepath.Join(regularFile, "x"), filepath.Join(dir, strings.Repeat("n", 300)), filepath.Join(dir, "a\x00b"), ""}
}

var c19fifoBlocked bool

func c19jsonStr(r *rand.Rand) string {
	s := c13jsonStr(r)
	if s == "" {
		s = "v"
	}
	return s
}

func c19jsonVal(r *rand.Rand, d int) interface{} {
	switch x := r.Intn(7); {
	case d <= 0 || x < 3:
		switch r.Intn(4) {
		case 0:
			return float64(r.Intn(100)) / 2
		case 1:
			return r.Intn(2) == 0
		}
		return c19jsonStr(r)
	case x < 5:
		m := map[string]interface{}{}
		for i, n := 0, 1+r.Intn(3); i < n; i++ {
			m[c19jsonStr(r)] = c19jsonVal(r, d-1)
		}
		return m
	default:
		l := []interface{}{}
		for i, n := 0, r.Intn(4); i < n; i++ { // (may stay empty: [] is not null)
			l = append(l, c19jsonVal(r, d-1))
		}
		return l
	}
}

// Child mode used under strace: read the file and print what came back.
func C19Child(kind, file string) {
	// strace counts "when=K" per thread: keep every read of this goroutine on one OS thread
	runtime.LockOSThread()
	var fps []string
	var err error
	switch kind {
	case "xml":
		var ms mxj.Maps
		ms, err = mxj.NewMapsFromXmlFile(file)
		for _, m := range ms {
			fps = append(fps, jv.Fp(m))
		}
	case "xmlraw":
		var ms []mxj.MapRaw
		ms, err = mxj.NewMapsFromXmlFileRaw(file)
		for _, m := range ms {
			fps = append(fps, jv.Fp(m.M))
		}
	case "json":
		var ms mxj.Maps
		ms, err = mxj.NewMapsFromJsonFile(file)
		for _, m := range ms {
			fps = append(fps, jv.Fp(m))
		}
	default:
		var ms []mxj.MapRaw
		ms, err = mxj.NewMapsFromJsonFileRaw(file)
		for _, m := range ms {
			fps = append(fps, jv.Fp(m.M))
		}
	}
	e := ""
	if err != nil {
		e = err.Error()
	}
	b, _ := json.Marshal(map[string]interface{}{"fps": fps, "err": e})
	fmt.Println("C19CHILD " + string(b))
}

func (c19) Case(c *core.Ctx) {
	r := c.R
	defer ResetDefaults()
	mxj.XMLEscapeChars(true)
	dir := c19scratch()
	fn := filepath.Join(dir, "c19.data")
	defer os.Remove(fn)
	if r.Intn(4) == 0 {
		// the file name given to the writers and readers is a symbolic link to the data file
		link := filepath.Join(dir, "c19.link")
		os.Remove(link)
		os.Remove(fn)
		if err := os.Symlink("c19.data", link); err == nil {
			defer os.Remove(link)
			fn = link
			c.Count("file-name-is-a-symlink")
		}
	}
	if fn == filepath.Join(dir, "c19.data") && r.Intn(8) == 0 {
		// a legal file name close to NAME_MAX (255 bytes)
		fn = filepath.Join(dir, strings.Repeat("n", 236+r.Intn(20)))
		if r.Intn(2) == 0 {
			// a name with characters that mean something to shells, printf and environment expansion - and to nobody else
			fn = filepath.Join(dir, []string{"c19-$HOME.data", "c19-${x}-%d.data", "c19 $1 'q'.data", "c19-~-*.data"}[r.Intn(4)])
		}
		defer os.Remove(fn)
		c.Count("file-name-near-NAME_MAX-or-with-shell-characters")
	}
	if fn == filepath.Join(dir, "c19.data") && r.Intn(10) == 0 {
		// a name that goes through a symbolic link to a directory and then "..": the operating system resolves it to
		// <dir>/real/c19.dots, a lexical clean-up of the name would make it <dir>/sub/c19.dots
		os.MkdirAll(filepath.Join(dir, "real", "inner"), 0o755)
		os.MkdirAll(filepath.Join(dir, "sub"), 0o755)
		os.Remove(filepath.Join(dir, "sub", "link"))
		if err := os.Symlink(filepath.Join("..", "real", "inner"), filepath.Join(dir, "sub", "link")); err == nil {
			fn = dir + "/sub/link/../c19.dots"
			defer os.Remove(filepath.Join(dir, "real", "c19.dots"))
			defer os.Remove(filepath.Join(dir, "sub", "c19.dots"))
			c.Count("file-name-through-symlinked-dir-and-dotdot")
		}
	}
	isJSON := c.Index%2 == 1
	n := 1 + r.Intn(6)
	var mvs mxj.Maps
	for i := 0; i < n; i++ {
		if isJSON {
			m := map[string]interface{}{}
			for j, k := 0, 1+r.Intn(3); j < k; j++ {
				m[c19jsonStr(r)] = c19jsonVal(r, 2)
			}
			if r.Intn(8) == 0 {
				// the key NewMapJson uses for a top-level JSON list, as the only key of an ordinary Map
				m = map[string]interface{}{"object": []interface{}{c19jsonVal(r, 1), map[string]interface{}{"k": c19jsonStr(r)}}}
				c.Count("json:sole-key-object-with-list")
			}
			if r.Intn(12) == 0 {
				d := []int{126, 127, 128, 129, 130, 200, 255, 256, 257}[r.Intn(9)]
				var deep interface{} = c19jsonStr(r)
				for j := 0; j < d; j++ {
					deep = map[string]interface{}{"a": deep}
				}
				m = map[string]interface{}{"deep": deep, "k": "v"}
				c.Count("json:deeply-nested-member")
			}
			mvs = append(mvs, m)
		} else {
			doc := xt.Render(r, c02gen.Gen(r, r.Intn(3)), xt.Style{})
			m, err := mxj.NewMapXml(doc)
			if err != nil {
				c.Harness("C19: decode of a generated document failed: " + err.Error())
				return
			}
			mvs = append(mvs, m)
		}
	}
	indent := []string{"  ", "\t", " ", ""}[r.Intn(4)]
	prefix := []string{"", "", " "}[r.Intn(3)]
	indented := r.Intn(2) == 0
	c.Eval()
	failedCalls(c, 8)

	// ---- write (over an existing, longer file in half of the cases: the file must be replaced) ----
	if r.Intn(2) == 0 {
		os.WriteFile(fn, bytes.Repeat([]byte("<stale>x</stale>{\"stale\":true}\n"), 200), 0o644)
		c.Count("written-over-existing-longer-file")
	}
	var werr error
	writer := ""
	switch {
	case isJSON && indented:
		writer, werr = "Maps.JsonFileIndent", mvs.JsonFileIndent(fn, prefix, indent)
	case isJSON:
		writer, werr = "Maps.JsonFile", mvs.JsonFile(fn)
	case indented:
		writer, werr = "Maps.XmlFileIndent", mvs.XmlFileIndent(fn, prefix, indent)
	default:
		writer, werr = "Maps.XmlFile", mvs.XmlFile(fn)
	}
	if werr != nil {
		c.Violate("c19-write-error", writer+" failed", core.D{"err": werr.Error()})
		return
	}
	c.Count("files-written")
	data, _ := os.ReadFile(fn)
	// per-Map encodings and their spans in the file
	type span struct{ start, end int }
	var spans []span
	var wantFp []string
	var docs [][]byte
	pos := 0
	for i, m := range mvs {
		var enc []byte
		switch {
		case isJSON && indented:
			enc, _ = m.JsonIndent(prefix, indent)
		case isJSON:
			enc, _ = m.Json()
		case indented:
			enc, _ = m.XmlIndent(prefix, indent)
		default:
			enc, _ = m.Xml()
		}
		at := bytes.Index(data[pos:], bytes.TrimLeft(enc, " \t\r\n"))
		if at < 0 {
			c.Violate("c19-file-content", writer+": the file does not contain the encoding of Map #"+fmt.Sprint(i), core.D{"file": string(data), "encoding": string(enc)})
			return
		}
		st := pos + at
		en := st + len(bytes.TrimLeft(enc, " \t\r\n"))
		spans = append(spans, span{st, en})
		docs = append(docs, data[st:en])
		pos = en
		if isJSON {
			wantFp = append(wantFp, jv.Fp(m))
		} else {
			back, err := mxj.NewMapXml(enc)
			if err != nil {
				c.Harness("C19: re-decode of an encoding failed: " + err.Error())
				return
			}
			wantFp = append(wantFp, jv.Fp(back))
		}
	}
	if len(mvs) >= 2 {
		c.NonTrivial(string(data), "intact")
	}
	if c.WantSample() && len(data) < 300 && len(mvs) >= 2 {
		c.Sample(core.D{"writer": writer, "file": string(data), "maps": len(mvs)})
	}

	// ---- read back, all reader forms ----
	type readT struct {
		fps  []string
		raws [][]byte
		err  error
	}
	read := func(raw bool) readT {
		var out readT
		switch {
		case isJSON && raw:
			ms, err := mxj.NewMapsFromJsonFileRaw(fn)
			out.err = err
			for _, m := range ms {
				out.fps = append(out.fps, jv.Fp(m.M))
				out.raws = append(out.raws, m.R)
			}
		case isJSON:
			ms, err := mxj.NewMapsFromJsonFile(fn)
			out.err = err
			for _, m := range ms {
				out.fps = append(out.fps, jv.Fp(m))
			}
		case raw:
			ms, err := mxj.NewMapsFromXmlFileRaw(fn)
			out.err = err
			for _, m := range ms {
				out.fps = append(out.fps, jv.Fp(m.M))
				out.raws = append(out.raws, m.R)
			}
		default:
			ms, err := mxj.NewMapsFromXmlFile(fn)
			out.err = err
			for _, m := range ms {
				out.fps = append(out.fps, jv.Fp(m))
			}
		}
		return out
	}
	for _, raw := range []bool{false, true} {
		got := read(raw)
		det := core.D{"writer": writer, "raw_reader": raw, "file": string(data), "expected_maps": len(mvs), "returned_maps": len(got.fps), "err": fmt.Sprint(got.err)}
		if got.err != nil {
			c.Violate("c19-read-error", "reading back an intact file failed", det)
			return
		}
		if len(got.fps) != len(wantFp) {
			c.Violate("c19-count", "the file reader returned a different number of Maps than were written", det)
			return
		}
		for i := range wantFp {
			if got.fps[i] != wantFp[i] {
				det["index"], det["observed"], det["expected"] = i, got.fps[i], wantFp[i]
				c.Violate("c19-map", "a Map read back from the file differs from the one written", det)
				return
			}
			if raw && !bytes.Contains(got.raws[i], docs[i]) {
				det["index"], det["raw"], det["document"] = i, string(got.raws[i]), string(docs[i])
				if isJSON && string(got.raws[i]) == stripWS(string(docs[i])) {
					c.Violate("c19-json-raw-compacted", "the Raw value of a JSON document read from a file is the compacted document, it does not contain the document's text", det)
				} else {
					c.Violate("c19-raw", "the Raw value does not contain the document's text", det)
					return
				}
			}
		}
	}

	// ---- gob and Copy ----
	for _, m := range mvs[:1+r.Intn(len(mvs))] {
		gb, err := m.Gob()
		var back mxj.Map
		if err == nil {
			back, err = mxj.NewMapGob(gb)
		}
		c.Count("gob-roundtrips")
		if err != nil || jv.Fp(back) != jv.Fp(m) {
			c.Violate("c19-gob", "Gob followed by NewMapGob does not return an equal Map", core.D{"map": jv.Show(m), "back": jv.Show(back), "err": fmt.Sprint(err)})
		}
		cp, err := m.Copy()
		if err != nil || jv.Fp(cp) != jv.Fp(m) || !reflect.DeepEqual(map[string]interface{}(cp), map[string]interface{}(m)) { // (deeply equal: an empty list is not a nil list)
			c.Violate("c19-copy", "Copy does not return an equal Map", core.D{"map": jv.Show(m), "copy": jv.Show(cp), "err": fmt.Sprint(err)})
		}
	}

	// ---- fault enumeration ----
	if len(data) <= 400 {
		rawReader := r.Intn(2) == 0
		for p := 0; p <= len(data); p++ {
			os.WriteFile(fn, data[:p], 0o644)
			c.Evals(1)
			c.Count("truncations")
			c.NonTrivial(string(data), fmt.Sprint("trunc", p))
			got := read(rawReader)
			complete, inside := 0, false
			for _, s := range spans {
				if s.end <= p {
					complete++
				} else if s.start < p {
					inside = true
				}
			}
			if inside {
				c.Count("truncation:inside-document")
			} else if p < len(data) {
				c.Count("truncation:between-documents")
			}
			det := core.D{"writer": writer, "file": string(data), "cut_at": p, "complete_documents": complete, "cut_inside_a_document": inside, "returned_maps": len(got.fps), "err": fmt.Sprint(got.err)}
			if len(got.fps) != complete {
				c.Violate("c19-truncated-count", "reading a truncated file did not return exactly the Maps read so far", det)
				break
			}
			bad := false
			for i := range got.fps {
				if got.fps[i] != wantFp[i] {
					det["index"] = i
					c.Violate("c19-truncated-map", "a Map read from a truncated file differs from the one written", det)
					bad = true
				}
			}
			if bad {
				break
			}
			if inside != (got.err != nil) {
				c.Violate("c19-truncated-error", "a truncated file must give an error exactly when the cut falls inside a document", det)
				break
			}
		}
		hostile := []byte("<>/&\"'{}[]\\: \x00\xff")
		for p := 0; p < len(data); p++ {
			h := hostile[(p+c.Index)%len(hostile)]
			if data[p] == h {
				continue
			}
			mut := append([]byte{}, data...)
			mut[p] = h
			os.WriteFile(fn, mut, 0o644)
			c.Evals(1)
			c.Count("substitutions")
			c.NonTrivial(string(data), fmt.Sprint("subst", p, h))
			got := read(rawReader)
			before := 0
			for _, s := range spans {
				if s.end <= p {
					before++
				}
			}
			det := core.D{"writer": writer, "file": string(mut), "damaged_offset": p, "documents_before_damage": before, "returned_maps": len(got.fps), "err": fmt.Sprint(got.err)}
			if len(got.fps) < before {
				c.Violate("c19-corrupt-prefix", "Maps that lie entirely before the damaged byte were not returned", det)
				break
			}
			for i := 0; i < before; i++ {
				if got.fps[i] != wantFp[i] {
					det["index"] = i
					c.Violate("c19-corrupt-prefix", "a Map that lies entirely before the damaged byte was changed", det)
					break
				}
			}
			// "malformed files yield an error": an independent judge of malformedness - the standard library's own
			// reader over the whole damaged file (a sequence of JSON objects / a token stream encoding/xml accepts)
			if got.err == nil && c19malformed(mut, isJSON) {
				c.Count("substitution:malformed-by-std")
				c.Violate("c19-corrupt-no-error", "a damaged file (XML: rejected by the strict encoding/xml tokenizer; JSON: a closing brace that closes nothing) was read without an error", det)
				break
			} else if got.err != nil {
				c.Count("substitution:error-reported")
			}
		}
		// a document the tokenizer reads to its end but that cannot be decoded (a number no float64 holds; an entity
		// nobody defined), put between the written documents: an error, together with exactly the Maps before it
		if len(spans) > 0 {
			k := r.Intn(len(spans) + 1)
			at := len(data)
			if k < len(spans) {
				at = spans[k].start
			}
			bad := []string{`<a>&hearts;</a>`, `<a b="&nope;">x</a>`, `<a><b>1</b>&nbsp;</a>`}[r.Intn(3)]
			if isJSON {
				bad = []string{`{"n":1e999,"k":"v"}`, `{"k":"v","l":[1,-1e400]}`, `{"a":{"n":1e+900},"z":1}`}[r.Intn(3)]
			}
			mut := append(append(append([]byte{}, data[:at]...), []byte(bad+"\n")...), data[at:]...)
			os.WriteFile(fn, mut, 0o644)
			c.Evals(1)
			c.Count("undecodable-document-inserted")
			got := read(rawReader)
			det := core.D{"writer": writer, "file": string(mut), "inserted": bad, "documents_before": k, "returned_maps": len(got.fps), "err": fmt.Sprint(got.err)}
			ok := got.err != nil && len(got.fps) == k
			for i := 0; ok && i < k; i++ {
				ok = got.fps[i] == wantFp[i]
			}
			if !ok {
				c.Violate("c19-undecodable-document", "a file holding a document that cannot be decoded must give an error together with exactly the Maps read before it", det)
			}
			os.WriteFile(fn, data, 0o644)
		}
		os.WriteFile(fn, data, 0o644)
	}

	// ---- OS-level fault injection through strace ----
	nInj := 0
	if c.Thorough() {
		if c.Index%8 == 0 {
			nInj = 4
		}
	} else if c.Index%96 == 0 {
		nInj = 3
	}
	for j := 0; j < nInj && len(data) > 0; j++ {
		k := 1 + r.Intn(len(data)+1)
		kind := map[bool]string{true: "json", false: "xml"}[isJSON]
		if r.Intn(2) == 0 {
			kind += "raw"
		}
		self, _ := os.Executable()
		cmd := exec.Command("strace", "-f", "-o", "/dev/null", "-P", fn, "-e", "trace=read", "-e", fmt.Sprintf("inject=read:error=EIO:when=%d", k), self, "-c19child", kind+":"+fn)
		out, err := cmd.CombinedOutput()
		line := ""
		for _, l := range strings.Split(string(out), "\n") {
			if strings.HasPrefix(l, "C19CHILD ") {
				line = strings.TrimPrefix(l, "C19CHILD ")
			}
		}
		if line == "" {
			c.Count("strace-unavailable")
			_ = err
			break
		}
		var res struct {
			Fps []string `json:"fps"`
			Err string   `json:"err"`
		}
		json.Unmarshal([]byte(line), &res)
		c.Evals(1)
		c.Count("strace-injections")
		c.NonTrivial(string(data), fmt.Sprint("eio", k))
		complete := 0
		for _, s := range spans {
			if s.end <= k-1 {
				complete++
			}
		}
		det := core.D{"writer": writer, "file": string(data), "EIO_on_read_number": k, "documents_complete_before": complete, "returned_maps": len(res.Fps), "err": res.Err}
		if res.Err == "" {
			c.Violate("c19-eio-no-error", "an unreadable file (EIO injected on a read) did not yield an error", det)
		} else if len(res.Fps) != complete {
			c.Violate("c19-eio-count", "the reader did not return exactly the Maps completed before the failing read", det)
		} else {
			for i := range res.Fps {
				if res.Fps[i] != wantFp[i] {
					c.Violate("c19-eio-map", "a Map returned before the failing read differs from the one written", det)
				}
			}
		}
	}

	// ---- bad paths ----
	if c.Index%4 == 0 {
		fifo := filepath.Join(dir, "c19.fifo")
		os.Remove(fifo)
		paths := hostilePaths(dir, fn)
		if !c19fifoBlocked && syscall.Mkfifo(fifo, 0o644) == nil {
			paths = append(paths, fifo)
			defer os.Remove(fifo)
		}
		for _, p := range paths {
			c.Count("bad-path-checks")
			var e1, e2, e3, e4 error
			done := make(chan struct{})
			go func() {
				_, e1 = mxj.NewMapsFromXmlFile(p)
				_, e2 = mxj.NewMapsFromXmlFileRaw(p)
				_, e3 = mxj.NewMapsFromJsonFile(p)
				_, e4 = mxj.NewMapsFromJsonFileRaw(p)
				close(done)
			}()
			select {
			case <-done:
			case <-time.After(20 * time.Second):
				// watchdog, not a deadline: opening a FIFO that has no writer blocks for ever, however fast the machine is.
				// (release the blocked goroutine: become the writer it waits for - once per reader - and go away)
				for k := 0; k < 4; k++ {
					if w, err := os.OpenFile(p, os.O_WRONLY|syscall.O_NONBLOCK, 0); err == nil {
						w.Close()
					}
					time.Sleep(50 * time.Millisecond)
				}
				c19fifoBlocked = true // reported once per process: every further attempt would cost another watchdog period
				c.Violate("c19-bad-path-blocks", "a file reader given the name of something that is not a regular file (a FIFO without a writer) does not return", core.D{"path": p})
				continue
			}
			if e1 == nil || e2 == nil || e3 == nil || e4 == nil {
				c.Violate("c19-bad-path-accepted", "a missing file, directory or non-regular file did not yield an error", core.D{"path": p, "errs": fmt.Sprint(e1, e2, e3, e4)})
			}
		}
		if err := mvs.XmlFile(filepath.Join(dir, "no-such-dir", "x")); err == nil {
			c.Violate("c19-bad-path-accepted", "XmlFile into a missing directory reported success", nil)
		}
	}
}

// c19malformed: for XML, the standard library rejects the file as a whole (the strict tokenizer meets an error before the
// end); for JSON, a closing brace outside every string that closes nothing.
func c19malformed(b []byte, isJSON bool) bool {
	if isJSON {
		// The JSON readers are documented to read "from the first '{' to its closing '}'": bytes between documents are
		// skipped, white space outside strings is dropped (finding F14), so the standard decoder over the whole file
		// is not the judge here. What the readers do promise to notice is a closing brace that closes nothing. The
		// scan below follows the documented reading (strings with escapes, brace depth, one document after another).
		inQuote, esc, depth, inDoc := false, false, 0, false
		for _, ch := range b {
			switch {
			case inQuote:
				if esc {
					esc = false
				} else if ch == '\\' {
					esc = true
				} else if ch == '"' {
					inQuote = false
				}
			case ch == '"':
				inQuote = true
			case ch == '{':
				depth++
				inDoc = true
			case ch == '}':
				depth--
				if depth < 0 {
					return true
				}
				if depth == 0 && inDoc {
					inDoc = false
				}
			}
		}
		return false
	}
	d := xml.NewDecoder(bytes.NewReader(b))
	for {
		_, err := d.RawToken()
		if err == io.EOF {
			return false
		}
		if err != nil {
			return true
		}
	}
}
