package mon

import (
	"bytes"
	"encoding/json"
	"fmt"
	"math"
	"math/rand"
	"sort"
	"strconv"
	"strings"

	mxj "github.com/clbanning/mxj/v2"
	"github.com/clbanning/mxj/v2/j2x"

	"verif/internal/core"
	"verif/internal/jv"
	"verif/internal/xt"
)

// C03 - encoding any JSON-shaped value as XML preserves all of its data.
type c03 struct{}

func init() { register(c03{}) }

func (c03) Meta() core.Meta {
	return core.Meta{
		ID: "C03", Level: "exploration",
		Rule:        "case i = f(seed,i): JSON-shaped value (maps, lists of scalars/maps/mixed/nested, strings with XML specials, float64, bool, null, empty containers, '-' attribute entries with scalar values, '#text' entries incl. null) with valid-name keys; roots: multi-key Map (default or explicit root tag), single-key Map with non-list value, any value through AnyXml/AnyXmlIndent (default/explicit tags), and JSON text through j2x.JsonToXml. Value escaping on. Monitors: std tokenizer accepts the output with exactly one root; the observer's XTree equals the reference tree (lists as repeated elements in order with nested lists flattened, attributes, text, empty element for null/\"\"/[]/{}), order-insensitive across names, order-exact within a name; NewMapXml(output) equals the reference decode of that tree; retained outputs stay intact. Non-trivial: depth>=2 and a list, attribute or text entry; distinct by hash(value, root form).",
		Assumptions: []string{"reference tree written from the documented encoding rules (DESIGN 3.3 refTree)", "a null attribute entry is unspecified (error or empty value accepted)", "a single-key map that supplies a tag has an element-name key"},
		Anchors:     []string{"Map.Xml", "Map.XmlIndent", "AnyXml", "AnyXmlIndent", "marshalMapToXmlIndent", "j2x.JsonToXml", "escapeChars"},
		Floors:      map[string]int64{"shape:nested-list": 300, "shape:empty-list": 300, "shape:null": 1000, "shape:attr": 1000, "shape:text-entry": 500, "shape:null-text": 50, "root:single-key": 500, "root:any-list": 300, "root:any-scalar": 200, "root:explicit-tag": 300, "api:j2x.JsonToXml": 300},
	}
}

func (c03) Cases(tier string, race bool) int {
	if race {
		return 0
	}
	if tier == "thorough" {
		return 500000
	}
	return 100000
}

// c03textK: the text key under the global key prefix of the running case.
var c03textK = "#text"

var c03keys = []string{"a", "b", "c", "d", "e1", "x-y", "Z_z", "ns:q", "doc", "element", "_seq", "_", "object"}
var c03strs = []string{"", "t", "hello", " pad ", "<&>\"'", "&amp;", "&lt;", "1", "true", "é世", "a]]>b", "x\ny", "<![CDATA[q]]>", "--", "</a>", `\u003c`, `a\u0026b\u003e`, "100%", "\ufeffx", "x\ufeff", `\u2028`, "&#65;", "&#x41;", "&amp;#65;", "x&#10;y", "&quot;", "&apos;q"}

// c03key: a key from the alphabet, now and then a literal of the tree under test that is a valid XML name.
func c03key(r *rand.Rand) string {
	if r.Intn(20) == 0 {
		return autoName(r, "a")
	}
	return c03keys[r.Intn(len(c03keys))]
}

func c03scalar(r *rand.Rand) interface{} {
	switch r.Intn(7) {
	case 0:
		return nil
	case 1:
		return r.Intn(2) == 0
	case 2:
		if r.Intn(5) == 0 {
			// what NewMapJson yields under JsonUseNumber
			return json.Number([]string{"12", "1.50", "-0", "1e3", "123456789012345678901234567890"}[r.Intn(5)])
		}
		if r.Intn(6) == 0 {
			// the other number types the encoder documents ("%v" formatting), and float64 values at formatting boundaries
			return []interface{}{42, int64(math.MaxInt64), int32(-7), float32(1.5), float32(0.1), math.Copysign(0, -1), 1e20, 1e21, 9007199254740993.0, int64(math.MinInt64), 123456789012345678.0,
				uint64(math.MaxUint64), uint64(1 << 63), uint(7), uint8(200), int8(-5), int16(-300), uint32(4000000000)}[r.Intn(18)] // (what a cast decode with CastValuesToInt leaves in a Map: uint64 for large values)
		}
		return []float64{0, 1, -1.5, 1e21, 1e-7, 123456789.125, 3}[r.Intn(7)]
	default:
		if r.Intn(16) == 0 {
			return autoText(r, "t")
		}
		return c03strs[r.Intn(len(c03strs))]
	}
}

type c03stats struct{ nestedList, emptyList, null, attr, text, nullText, nullAttr bool }

func c03gen(r *rand.Rand, depth int, st *c03stats) interface{} {
	x := r.Intn(10)
	if depth <= 0 {
		x = 0
	}
	switch {
	case x < 4:
		v := c03scalar(r)
		if v == nil {
			st.null = true
		}
		return v
	case x < 8:
		m := map[string]interface{}{}
		n := r.Intn(4)
		for i := 0; i < n; i++ {
			m[c03key(r)] = c03gen(r, depth-1, st)
		}
		na := r.Intn(3)
		for i := 0; i < na; i++ {
			v := c03scalar(r)
			switch v.(type) {
			case uint64, uint, uint8, int8, int16, uint32:
				v = "nn" // (the encoder documents string, bool, float64, int, int32, int64, float32 for attribute values)
			}
			if v == nil {
				if r.Intn(4) != 0 {
					v = "nn"
				} else {
					st.nullAttr = true
				}
			}
			m["-"+c03key(r)] = v
			st.attr = true
		}
		if r.Intn(3) == 0 {
			v := c03scalar(r)
			if v == nil {
				st.nullText = true
			}
			m[c03textK] = v
			st.text = true
		}
		return m
	default:
		n := r.Intn(4)
		l := []interface{}{}
		for i := 0; i < n; i++ {
			e := c03gen(r, depth-1, st)
			if _, ok := e.([]interface{}); ok {
				st.nestedList = true
			}
			l = append(l, e)
		}
		if n == 0 {
			st.emptyList = true
		}
		return l
	}
}

func hasJSONNumber(v interface{}) bool {
	switch t := v.(type) {
	case json.Number, int, int32, int64, float32, uint64, uint, uint8, int8, int16, uint32:
		return true // (number types a JSON text round trip does not preserve)
	case map[string]interface{}:
		for _, e := range t {
			if hasJSONNumber(e) {
				return true
			}
		}
	case []interface{}:
		for _, e := range t {
			if hasJSONNumber(e) {
				return true
			}
		}
	}
	return false
}

func scalarText(v interface{}) string {
	switch t := v.(type) {
	case nil:
		return ""
	case string:
		return t
	case bool:
		return strconv.FormatBool(t)
	case float64:
		return strconv.FormatFloat(t, 'g', -1, 64)
	case json.Number:
		return string(t)
	case int:
		return strconv.Itoa(t)
	}
	return fmt.Sprint(v)
}

// refEls: the reference encoding of value v under tag: a sequence of elements (lists unroll and flatten).
func refEls(tag string, v interface{}) []*xt.Node {
	pfx, loc := "", tag
	if i := strings.Index(tag, ":"); i > 0 {
		pfx, loc = tag[:i], tag[i+1:]
	}
	switch t := v.(type) {
	case []interface{}:
		if len(t) == 0 {
			return []*xt.Node{{Prefix: pfx, Local: loc}}
		}
		var out []*xt.Node
		for _, e := range t {
			out = append(out, refEls(tag, e)...)
		}
		return out
	case map[string]interface{}:
		e := &xt.Node{Prefix: pfx, Local: loc}
		text := ""
		for _, k := range sortedKeys(t) {
			switch {
			case k == c03textK:
				text = scalarText(t[k])
			case strings.HasPrefix(k, "-") && len(k) > 1:
				an := k[1:]
				ap, al := "", an
				if i := strings.Index(an, ":"); i > 0 {
					ap, al = an[:i], an[i+1:]
				}
				e.Attrs = append(e.Attrs, xt.Attr{Prefix: ap, Local: al, Val: scalarText(t[k])})
			default:
				for _, k := range refEls(k, t[k]) {
					e.Items = append(e.Items, xt.Item{Kind: xt.KElem, El: k})
				}
			}
		}
		if text != "" {
			e.Items = append([]xt.Item{{Kind: xt.KText, Text: text}}, e.Items...)
		}
		return []*xt.Node{e}
	default:
		e := &xt.Node{Prefix: pfx, Local: loc}
		if s := scalarText(v); s != "" {
			e.Items = []xt.Item{{Kind: xt.KText, Text: s}}
		}
		return []*xt.Node{e}
	}
}

// canonTree: order-insensitive across names, order-exact within a name; text trimmed.
func canonTree(n *xt.Node) string {
	var attrs []string
	for _, a := range n.Attrs {
		attrs = append(attrs, xt.QN(a.Prefix, a.Local)+"="+strconv.Quote(a.Val))
	}
	sort.Strings(attrs)
	groups := map[string][]string{}
	for _, k := range n.Kids() {
		groups[k.Name()] = append(groups[k.Name()], canonTree(k))
	}
	names := make([]string, 0, len(groups))
	for g := range groups {
		names = append(names, g)
	}
	sort.Strings(names)
	var b strings.Builder
	t, _ := n.TextRun()
	b.WriteString("<" + n.Name() + " [" + strings.Join(attrs, ",") + "] " + strconv.Quote(strings.Trim(t, "\t\r\n ")))
	for _, g := range names {
		b.WriteString(" " + g + ":(" + strings.Join(groups[g], ";") + ")")
	}
	b.WriteString(">")
	return b.String()
}

func (c03) Case(c *core.Ctx) {
	r := c.R
	var st c03stats
	mxj.XMLEscapeChars(true)
	defer ResetDefaults()
	c03textK = "#text"
	if r.Intn(8) == 0 {
		// another global key prefix: the text key is then spelled with it (and sorts elsewhere among the sub-element tags)
		mxj.SetGlobalKeyMapPrefix("_")
		c03textK = "_text"
		c.Count("option:key-prefix-underscore")
	}
	if r.Intn(6) == 0 {
		// the other spelling of empty elements (<a></a> instead of <a/>): the same data, a well-formed document
		mxj.XmlGoEmptyElemSyntax()
		c.Count("option:go-empty-element-syntax")
	}
	defer verifyKept(c, "c03-retained-output-changed")
	c.Eval()
	failedCalls(c, 8)

	var value interface{}
	var want *xt.Node
	var encs []func() (string, []byte, error)
	form := r.Intn(4)
	indent := []string{"  ", "\t", " ", ""}[r.Intn(4)]
	prefix := []string{"", "", " "}[r.Intn(3)]
	rootForm := ""
	switch form {
	case 0, 1: // Map root
		m := map[string]interface{}{}
		nk := 1 + r.Intn(3)
		for j := 0; j < nk; j++ {
			m[c03key(r)] = c03gen(r, 4, &st)
		}
		if len(m) == 1 {
			for _, v := range m {
				if _, isList := v.([]interface{}); isList {
					m["zz"] = "pad" // the root is a multi-key map or a single-key map whose value is not a list
				}
			}
		}
		value = m
		tag := []string{}
		if r.Intn(4) == 0 {
			tag = []string{[]string{"root-tag", "a", "doc", "b"}[r.Intn(4)]} // also a tag equal to one of the keys
			c.Count("root:explicit-tag")
		}
		if r.Intn(6) == 0 {
			// pad one string so that the compact encoding is exactly a multiple of 4096 bytes - or of an integer literal of the tree - (buffer boundaries)
			m["pad"] = "p"
			if x0, e0 := mxj.Map(m).Xml(tag...); e0 == nil {
				blk := autoBlock(r)
				m["pad"] = strings.Repeat("p", 1+(blk-len(x0)%blk)%blk)
				if r.Intn(3) == 0 {
					// ... or one byte more, the last character being a two-byte rune that straddles the boundary
					m["pad"] = strings.Repeat("p", (blk-len(x0)%blk)%blk) + "é"
				}
				c.Count("shape:output-multiple-of-4096")
			}
		}
		if len(m) == 1 && len(tag) == 0 {
			c.Count("root:single-key")
			for k, v := range m {
				want = refEls(k, v)[0]
			}
			rootForm = "single-key"
		} else if len(tag) == 1 {
			want = refEls(tag[0], m)[0]
			rootForm = "explicit:" + tag[0]
		} else {
			want = refEls("doc", m)[0]
			rootForm = "multi-key"
		}
		encs = append(encs,
			func() (string, []byte, error) { b, e := mxj.Map(m).Xml(tag...); return "Map.Xml", b, e },
			func() (string, []byte, error) {
				b, e := mxj.Map(m).XmlIndent(prefix, indent, tag...)
				return "Map.XmlIndent", b, e
			},
			func() (string, []byte, error) {
				var w bytes.Buffer
				e := mxj.Map(m).XmlWriter(&w, tag...)
				return "Map.XmlWriter", w.Bytes(), e
			},
			func() (string, []byte, error) {
				var w bytes.Buffer
				e := mxj.Map(m).XmlIndentWriter(&w, prefix, indent, tag...)
				return "Map.XmlIndentWriter", w.Bytes(), e
			})
		if len(tag) == 0 && r.Intn(3) == 0 && !hasJSONNumber(m) { // (a JSON text round trip cannot keep float64 and json.Number leaves apart)
			if jb, e := json.Marshal(m); e == nil {
				c.Count("api:j2x.JsonToXml")
				encs = append(encs, func() (string, []byte, error) { b, e := j2x.JsonToXml(jb); return "j2x.JsonToXml", b, e },
					func() (string, []byte, error) {
						var w bytes.Buffer
						e := j2x.JsonToXmlWriter(jb, &w)
						return "j2x.JsonToXmlWriter", w.Bytes(), e
					})
			}
		}
	default: // AnyXml
		v := c03gen(r, 3, &st)
		value = v
		rt, et := "doc", "element"
		tags := []string{}
		switch r.Intn(4) {
		case 0:
			rt = []string{"top", "a", "doc"}[r.Intn(3)]
			tags = []string{rt}
			c.Count("root:explicit-tag")
		case 1:
			rt, et, tags = "top", "item", []string{"top", "item"}
			c.Count("root:explicit-tag")
		}
		rootForm = "any:" + rt + "/" + et
		switch t := v.(type) {
		case []interface{}:
			c.Count("root:any-list")
			want = &xt.Node{Local: rt}
			for _, e := range t {
				var els []*xt.Node
				if em, ok := e.(map[string]interface{}); ok && len(em) == 1 {
					for k, vv := range em {
						if strings.HasPrefix(k, "-") || k == c03textK {
							// scoping decision: a single-key map that supplies the tag has an element-name key
							c.Count("skipped:outside-domain")
							return
						}
						els = refEls(k, vv)
					}
				} else {
					els = refEls(et, e)
				}
				for _, el := range els {
					want.Items = append(want.Items, xt.Item{Kind: xt.KElem, El: el})
				}
			}
		case map[string]interface{}:
			want = refEls(rt, v)[0]
		default:
			c.Count("root:any-scalar")
			want = refEls(rt, v)[0]
		}
		encs = append(encs,
			func() (string, []byte, error) { b, e := mxj.AnyXml(v, tags...); return "AnyXml", b, e },
			func() (string, []byte, error) {
				b, e := mxj.AnyXmlIndent(v, prefix, indent, tags...)
				return "AnyXmlIndent", b, e
			})
	}
	if st.nestedList {
		c.Count("shape:nested-list")
	}
	if st.emptyList {
		c.Count("shape:empty-list")
	}
	if st.null {
		c.Count("shape:null")
	}
	if st.attr {
		c.Count("shape:attr")
	}
	if st.text {
		c.Count("shape:text-entry")
	}
	if st.nullText {
		c.Count("shape:null-text")
	}
	vfp := jv.Fp(value)
	if jv.Depth(value) >= 2 && (st.attr || st.text || strings.Contains(vfp, "[")) {
		c.NonTrivial(vfp, rootForm)
	}
	wantCanon := canonTree(want)
	dcfg := DefaultCfg()
	dcfg.KeyPrefix = strings.TrimSuffix(c03textK, "text")
	wantDecode := jv.Fp(dcfg.RefDecode(want))
	if c.WantSample() && jv.Depth(value) >= 2 && len(vfp) < 250 {
		c.Sample(core.D{"value": vfp, "root": rootForm, "expected_tree": want.String()})
	}
	for _, enc := range encs {
		api, out, err := enc()
		c.Count("api:" + api)
		det := core.D{"api": api, "value": jv.Show(value), "root": rootForm, "output": string(out), "expected_tree": want.String()}
		if err != nil {
			if st.nullAttr {
				c.Count("unspecified:null-attribute-error")
				continue
			}
			det["err"] = err.Error()
			c.Violate("c03-encode-error", api+" failed on a JSON-shaped value", det)
			continue
		}
		keep(c, api, out)
		if werr := xt.WellFormed(out); werr != nil {
			det["err"] = werr.Error()
			class := "c03-illformed"
			if st.nullText && strings.Contains(string(out), "<nil>") {
				class = "c03-null-text-nil-literal"
			}
			c.Violate(class, api+" output is not a well-formed single-root document", det)
			continue
		}
		got, _, perr := xt.Parse(out, false)
		if perr != nil {
			det["err"] = perr.Error()
			c.Violate("c03-illformed", api+" output rejected by the observer", det)
			continue
		}
		if gc := canonTree(got); gc != wantCanon {
			det["expected_canon"], det["observed_canon"] = wantCanon, gc
			c.Violate("c03-tree", api+" output does not carry exactly the value's data", det)
			continue
		}
		mxj.XMLEscapeChars(false)
		m2, derr := mxj.NewMapXml(out)
		mxj.XMLEscapeChars(true)
		if derr != nil || jv.Fp(m2) != wantDecode {
			det["err"] = fmt.Sprint(derr)
			det["decoded"] = jv.Show(m2)
			c.Violate("c03-decode", "decoding the output of "+api+" does not return the same keys and nesting", det)
		}
	}
}
