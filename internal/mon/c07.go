package mon

import (
	"encoding/json"
	"fmt"
	"math/rand"
	"strings"

	mxj "github.com/clbanning/mxj/v2"
	"github.com/clbanning/mxj/v2/j2x"

	"verif/internal/core"
	"verif/internal/jv"
)

// C07 - reference-model monitor for ValuesForPath / ValueForPath / Exists.
type c07 struct{}

func init() { register(c07{}) }

func (c07) Meta() core.Meta {
	return core.Meta{
		ID: "C07", Level: "exploration",
		Rule:        "case i = f(seed,i): JSON/XML-shaped Map (keys from a 7-key alphabet so that keys recur at several depths - in 1/4 of the cases from a hostile alphabet: digit strings, names with leading/trailing blanks beside their trimmed twins, names with '/', '#attr', '_seq' -, depth<=6, lists of maps/scalars/mixed, no list directly inside a list, wide lists/maps with 33..80 members) + a path derived from the Map's structure (plain keys, '*', k[i] in and out of range, list levels skipped, truncated, extended past scalars, up to 3 indexed steps, subscripts now and then zero-padded; LeafUseDotNotation and decoder options set as ambient noise in 1/6 of the cases). ValuesForPath compared with the reference denotation: sequence equality without wildcard, multiset equality with; ValueForPath/ValueForPathString/Exists/j2x.JsonValuesForKeyPath checked for consistency. Non-trivial: the reference result is non-empty and the path has >=2 segments; distinct by hash(map, path).",
		Assumptions: []string{"reference denotation written from the property statement (DESIGN 4 C07 refPath)", "lists directly inside lists and indexed wildcard steps are outside the quantifier and not generated"},
		Anchors:     []string{"Map.ValuesForPath", "valuesForArray", "parsePath", "Map.oldValuesForPath", "valuesForKeyPath", "Map.ValueForPath", "Map.ValueForPathString", "Map.Exists", "j2x.JsonValuesForKeyPath"},
		Floors:      map[string]int64{"result>32": 20, "indexed>=2": 100, "wildcard": 300, "nonempty": 1000, "indexed-after-plain-list": 30},
	}
}

func (c07) Cases(tier string, race bool) int {
	if race {
		return 0
	}
	if tier == "thorough" {
		return 1500000
	}
	return 150000
}

var c07keys = []string{"a", "b", "c", "d", "k", "Kk", "a-B"}

func c07scalar(r *rand.Rand) interface{} {
	switch r.Intn(6) {
	case 0:
		return float64(r.Intn(100))
	case 1:
		return r.Intn(2) == 0
	default:
		return fmt.Sprintf("s%d", r.Intn(1000))
	}
}

var c07gen = jv.GenOpt{Keys: c07keys, MaxFan: 3, WideProb: 14, ListInList: false, EmptyConts: true, Nulls: true, Scalars: c07scalar}

func (c07) Case(c *core.Ctx) {
	r := c.R
	g := c07gen
	g.Keys = keyAlphabet(r, c07keys)
	root := jv.M{"doc": g.Fresh().Value(r, 1+r.Intn(5), false)}
	if r.Intn(5) == 0 {
		root = g.Fresh().Map(r, 1+r.Intn(4))
	}
	if r.Intn(6) == 0 {
		// the same map object stored in two places (a DAG): what the path denotes is unchanged
		c.Add("shape:aliased-submaps", int64(jv.Alias(r, root, 1+r.Intn(2), nil)))
	}
	segs := genPath(r, root, append([]string{"doc"}, g.Keys...), true, true)
	// indexes only on non-wildcard steps (quantifier)
	for i := range segs {
		if segs[i].name == "*" {
			segs[i].idx = -1
		}
	}
	path := pathStringR(r, segs)
	before := jv.Fp(root)
	want := refEval(root, segs)
	hugeIdx := false
	if numIndexed(segs) > 0 && r.Intn(40) == 0 {
		// a subscript no list can have: the path denotes nothing (an error is accepted as well)
		for i := range segs {
			if segs[i].idx >= 0 {
				huge := []string{"2147483647", "2147483648", "4294967296", "9223372036854775807", "9223372036854775808", "18446744073709551615", "18446744073709551616"}[r.Intn(7)]
				parts := strings.Split(path, ".")
				parts[i] = segs[i].name + "[" + huge + "]"
				path = strings.Join(parts, ".")
				break
			}
		}
		want, hugeIdx = nil, true
		c.Count("subscript-beyond-any-list")
	}
	wild := hasWildcard(segs)

	oneIn := 6
	if &g.Keys[0] == &hostileKeys[0] {
		oneIn = 2
	}
	if ambientDecoderOptions(c, oneIn) {
		defer ResetDefaults()
	}
	c.Eval()
	failedCalls(c, 8)
	got, err := mxj.Map(root).ValuesForPath(path)
	if len(want) > 32 {
		c.Count("result>32")
	}
	if numIndexed(segs) >= 2 {
		c.Count("indexed>=2")
	}
	if numIndexed(segs) >= 1 {
		c.Count("indexed>=1")
	}
	if wild {
		c.Count("wildcard")
	}
	if len(want) > 0 {
		c.Count("nonempty")
		if len(segs) >= 2 {
			c.NonTrivial(before, path)
		}
	}
	for i := 1; i < len(segs); i++ {
		if segs[i].idx >= 0 && segs[i-1].idx < 0 && len(want) > 0 {
			c.Count("indexed-after-plain-list")
			break
		}
	}
	if c.WantSample() && len(want) > 0 && len(before) < 300 && len(segs) > 2 {
		c.Sample(core.D{"map": before, "path": path, "expected": jv.Show(want)})
	}
	det := func() core.D {
		return core.D{"map": jv.Show(root), "path": path, "expected": jv.Show(want), "observed": jv.Show(got), "err": fmt.Sprint(err)}
	}
	if err != nil && hugeIdx {
		return // refusing a subscript that does not fit an int is fine; returning a value or panicking is not
	}
	if err != nil {
		c.Violate("c07-error", "ValuesForPath returned an error for a well-formed path", det())
		return
	}
	ok := false
	if wild {
		ok = jv.MultisetEqual(got, want)
	} else {
		ok = jv.SeqEqual(got, want)
	}
	if !ok {
		class := "c07-values"
		if len(got) > len(want) {
			class = "c07-extra-values"
		} else if len(got) < len(want) {
			class = "c07-missing-values"
		} else if !wild && jv.MultisetEqual(got, want) {
			class = "c07-order"
		}
		c.Violate(class, "ValuesForPath differs from what the path denotes", det())
		return
	}
	if jv.Fp(root) != before {
		c.Violate("c07-receiver-modified", "ValuesForPath modified its receiver", det())
	}
	// asked again - on the same receiver and on an equal Map built separately -: same answer
	for i, rcv := range []map[string]interface{}{root, jv.Copy(root).(jv.M)} {
		if i == 1 && r.Intn(4) != 0 {
			break
		}
		again, e := mxj.Map(rcv).ValuesForPath(path)
		if e != nil || !jv.MultisetEqual(again, want) || (!wild && !jv.SeqEqual(again, want)) {
			c.Violate("c07-values", "ValuesForPath returns something else when asked a second time (or on an equal Map built separately)", core.D{"map": jv.Show(root), "path": path, "expected": jv.Show(want), "second_answer": jv.Show(again), "err": fmt.Sprint(e), "on_copy": i == 1})
			return
		}
	}
	// consistency of the wrappers
	v1, e1 := mxj.Map(root).ValueForPath(path)
	if len(got) == 0 {
		if e1 != mxj.PathNotExistError {
			c.Violate("c07-valueforpath", "ValueForPath on an empty result must return PathNotExistError", core.D{"map": jv.Show(root), "path": path, "value": jv.Show(v1), "err": fmt.Sprint(e1)})
		}
	} else if !wild && (e1 != nil || !jv.Equal(v1, got[0])) {
		c.Violate("c07-valueforpath", "ValueForPath is not the first value of ValuesForPath", core.D{"map": jv.Show(root), "path": path, "value": jv.Show(v1), "first": jv.Show(got[0]), "err": fmt.Sprint(e1)})
	} else if wild && e1 == nil {
		found := false
		for _, g := range got {
			if jv.Equal(g, v1) {
				found = true
			}
		}
		if !found {
			c.Violate("c07-valueforpath", "ValueForPath returned a value ValuesForPath does not", core.D{"map": jv.Show(root), "path": path, "value": jv.Show(v1)})
		}
	} else if e1 != nil {
		c.Violate("c07-valueforpath", "ValueForPath failed although values exist", core.D{"map": jv.Show(root), "path": path, "err": fmt.Sprint(e1)})
	}
	s1, e2 := mxj.Map(root).ValueForPathString(path)
	if (len(got) == 0) != (e2 != nil) {
		c.Violate("c07-valueforpathstring", "ValueForPathString error does not match emptiness", core.D{"map": jv.Show(root), "path": path, "err": fmt.Sprint(e2)})
	} else if len(got) > 0 && !wild && s1 != fmt.Sprintf("%v", got[0]) {
		c.Violate("c07-valueforpathstring", "ValueForPathString is not the text of the first value", core.D{"map": jv.Show(root), "path": path, "string": s1, "first": jv.Show(got[0])})
	}
	ex, e3 := mxj.Map(root).Exists(path)
	if e3 != nil || ex != (len(got) > 0) {
		c.Violate("c07-exists", "Exists is not 'ValuesForPath non-empty'", core.D{"map": jv.Show(root), "path": path, "exists": ex, "n": len(got), "err": fmt.Sprint(e3)})
	}
	if r.Intn(4) == 0 && jsonSafeKeys(root) {
		jb, jerr := json.Marshal(root)
		if jerr == nil {
			jg, je := j2x.JsonValuesForKeyPath(jb, path)
			if je != nil || !jv.MultisetEqual(jg, want) || (!wild && !jv.SeqEqual(jg, want)) {
				c.Violate("c07-j2x", "j2x.JsonValuesForKeyPath differs from the path's denotation", core.D{"json": string(jb), "path": path, "expected": jv.Show(want), "observed": jv.Show(jg), "err": fmt.Sprint(je)})
			}
			c.Count("api:j2x.JsonValuesForKeyPath")
		}
	}
}
