package mon

import (
	"bytes"
	"encoding/xml"
	"fmt"
	"io"
	"math/rand"
	"strings"

	mxj "github.com/clbanning/mxj/v2"

	"verif/internal/core"
	"verif/internal/xt"
)

// C05 - special characters survive encoding; invalid output is an error, never silent.
type c05 struct{}

func init() { register(c05{}) }

func (c05) Meta() core.Meta {
	return core.Meta{
		ID: "C05", Level: "exploration",
		Rule:        "case i = f(seed,i): five strings over the atoms & < > \" ' &amp; &lt; &#x41; &#65; ]]> <![CDATA[ -- </r> letters blanks tab newline non-ASCII (0..7 atoms) placed in an attribute, a simple element, text beside an attribute, an attribute beside text, and text beside a child element, for Map and MapSeq (clause 2 also puts them in xmlns / xmlns:ns declarations). Per case: a random prefix of escaping-switch calls with the hooked option state checked after each (never both on); clause 1 (encoder-side escaping, validity on/off): all four encoders' output accepted by the std tokenizer and every value read back exactly (element text up to trimming); clause 2 (decoder-side escaping): a document rendered from the strings is decoded and re-encoded by both codecs and the values the std tokenizer reads from the output equal those it reads from the document, Map values equal the reference escape; clause 3 (escaping off, validity on; CustomDecoder strict/non-strict with or without an extra entity map in 1/4 of the cases as ambient noise; strings include &nbsp; and &foo;): error or tokenizer-accepted output, never nil error with rejected output. Non-trivial: at least one string contains a special character; distinct by hash(strings).",
		Assumptions: []string{"'well formed' = accepted by the std strict tokenizer (the notion the validity switch documents)"},
		Anchors:     []string{"escapeChars", "XMLEscapeChars", "XMLEscapeCharsDecoder", "XmlCheckIsValid", "Map.Xml", "Map.XmlIndent", "MapSeq.Xml", "MapSeq.XmlIndent", "mapToXmlSeqIndent", "marshalMapToXmlIndent"},
		Floors:      map[string]int64{"clause1:values-read-back": 50000, "clause2:docs": 3000, "clause3:error-returned": 1000, "clause3:valid-output": 1000, "switch-calls-checked": 10000, "strings:pre-escaped-lookalike": 1000, "strings:cdata-markers": 1000},
	}
}

func (c05) Cases(tier string, race bool) int {
	if race {
		return 0
	}
	if tier == "thorough" {
		return 300000
	}
	return 30000
}

var c05atoms = []string{"&", "<", ">", `"`, "'", "&amp;", "&lt;", "&#x41;", "&#65;", "]]>", "<![CDATA[", "--", "</r>", "a", "B", " ", "\t", "\n", "é", "世", "1", ";", "&amp;amp;", "&quot;", "&nbsp;", "&foo;", `<?xml version="1.1"?>`, `<?xml version="1.0" encoding="latin1"?>`, "<?pi x?>", "<!-- c -->", "<!DOCTYPE x>", "<a>", "<a/>"}

var c05benign = []string{"&amp;", "&lt;", "&#x41;", "&#65;", "a", "B", " ", "é", "世", "1", ";", "&amp;amp;", "&quot;", "--"}

func c05str(r *rand.Rand, benign bool) string {
	n := r.Intn(8)
	atoms := c05atoms
	if benign {
		atoms = c05benign // valid as raw XML content: exercises the accepting side of the validity switch
	}
	var b strings.Builder
	for i := 0; i < n; i++ {
		if !benign && r.Intn(14) == 0 {
			b.WriteString(autoText(r, "a")) // a literal of the tree under test (XML-legal characters)
			continue
		}
		b.WriteString(atoms[r.Intn(len(atoms))])
	}
	return b.String()
}

// readValues: attribute values and concatenated text per element path, by the std tokenizer.
func readValues(x []byte) (map[string]string, error) {
	d := xml.NewDecoder(bytes.NewReader(x))
	vals := map[string]string{}
	var stack []string
	for {
		t, e := d.Token()
		if e == io.EOF {
			return vals, nil
		}
		if e != nil {
			return nil, e
		}
		switch tt := t.(type) {
		case xml.StartElement:
			stack = append(stack, tt.Name.Local)
			for _, a := range tt.Attr {
				vals[strings.Join(stack, "/")+"/@"+a.Name.Local] = a.Value
			}
		case xml.EndElement:
			if len(stack) == 0 {
				return nil, fmt.Errorf("stray end tag")
			}
			stack = stack[:len(stack)-1]
		case xml.CharData:
			if len(stack) > 0 {
				vals[strings.Join(stack, "/")] += string(tt)
			}
		}
	}
}

func checkSwitches(c *core.Ctx, after string) {
	s := mxj.VerifOptionSnapshot()
	c.Count("switch-calls-checked")
	if s["xmlEscapeChars"].(bool) && s["xmlEscapeCharsDecoder"].(bool) {
		c.Violate("c05-both-escaping-switches-on", "encoder-side and decoder-side escaping are both on after "+after, core.D{"after": after})
	}
}

func (c05) Case(c *core.Ctx) {
	r := c.R
	defer ResetDefaults()
	defer verifyKept(c, "c05-retained-output-changed")
	c.Eval()
	failedCalls(c, 8)
	benign := r.Intn(4) == 0
	ss := [5]string{c05str(r, benign), c05str(r, benign), c05str(r, benign), c05str(r, benign), c05str(r, benign)}
	joined := strings.Join(ss[:], "\x00")
	if strings.ContainsAny(joined, "&<>\"'") {
		c.NonTrivial(joined)
	}
	if strings.Contains(joined, "&amp;") || strings.Contains(joined, "&#") || strings.Contains(joined, "&lt;") {
		c.Count("strings:pre-escaped-lookalike")
	}
	if strings.Contains(joined, "]]>") || strings.Contains(joined, "<![CDATA[") {
		c.Count("strings:cdata-markers")
	}
	if c.WantSample() && strings.ContainsAny(joined, "&<") {
		c.Sample(core.D{"strings": ss[:]})
	}
	trim := func(s string) string { return strings.Trim(s, "\t\r\n ") }

	// (4) random prefix of switch calls, invariant checked after each
	for i, n := 0, r.Intn(6); i < n; i++ {
		switch r.Intn(6) {
		case 0:
			mxj.XMLEscapeChars(true)
			checkSwitches(c, "XMLEscapeChars(true)")
		case 1:
			mxj.XMLEscapeChars(false)
			checkSwitches(c, "XMLEscapeChars(false)")
		case 2:
			mxj.XMLEscapeChars()
			checkSwitches(c, "XMLEscapeChars()")
		case 3:
			mxj.XMLEscapeCharsDecoder(true)
			checkSwitches(c, "XMLEscapeCharsDecoder(true)")
		case 4:
			mxj.XMLEscapeCharsDecoder(false)
			checkSwitches(c, "XMLEscapeCharsDecoder(false)")
		default:
			mxj.XMLEscapeCharsDecoder()
			checkSwitches(c, "XMLEscapeCharsDecoder()")
		}
	}
	mxj.XMLEscapeCharsDecoder(false)
	mxj.XMLEscapeChars(false)

	m := mxj.Map{"r": map[string]interface{}{"-a": ss[0], "e": ss[1],
		"m": map[string]interface{}{"#text": ss[2], "-b": ss[3]},
		"x": map[string]interface{}{"#text": ss[4], "k": ""}}}
	ms := mxj.MapSeq{"r": map[string]interface{}{
		"#attr": map[string]interface{}{"a": map[string]interface{}{"#text": ss[0], "#seq": 0}},
		"e":     map[string]interface{}{"#text": ss[1], "#seq": 0},
		"m":     map[string]interface{}{"#text": ss[2], "#seq": 1, "#attr": map[string]interface{}{"b": map[string]interface{}{"#text": ss[3], "#seq": 0}}},
		"x":     map[string]interface{}{"#text": ss[4], "#seq": 2, "k": map[string]interface{}{"#seq": 0}},
	}}
	indent := []string{" ", "  ", "\t"}[r.Intn(3)]
	type encT struct {
		name string
		f    func() ([]byte, error)
	}
	encs := []encT{
		{"Map.Xml", func() ([]byte, error) { return m.Xml() }},
		{"Map.XmlIndent", func() ([]byte, error) { return m.XmlIndent("", indent) }},
		{"MapSeq.Xml", func() ([]byte, error) { return ms.Xml() }},
		{"MapSeq.XmlIndent", func() ([]byte, error) { return ms.XmlIndent("", indent) }},
	}
	// further root forms of Map.Xml / XmlIndent (well-formedness clauses only): single key holding a list with a
	// non-map member (wrapped under the default root), multi-key Map, explicit root tag
	mList := mxj.Map{"r": []interface{}{ss[0], map[string]interface{}{"e": ss[1]}, ss[2]}}
	mMulti := mxj.Map{"a": ss[0], "b": map[string]interface{}{"-c": ss[1], "#text": ss[2]}}
	shapeEncs := []encT{
		{"Map.Xml(single-key list)", func() ([]byte, error) { return mList.Xml() }},
		{"Map.XmlIndent(single-key list)", func() ([]byte, error) { return mList.XmlIndent("", indent) }},
		{"Map.Xml(multi-key)", func() ([]byte, error) { return mMulti.Xml() }},
		{"Map.XmlIndent(multi-key)", func() ([]byte, error) { return mMulti.XmlIndent("", indent) }},
		{"Map.Xml(root tag)", func() ([]byte, error) { return m.Xml("top") }},
		{"MapSeq.Xml(root tag)", func() ([]byte, error) { return ms.Xml("top") }},
		{"AnyXml(list)", func() ([]byte, error) { return mxj.AnyXml([]interface{}{ss[0], map[string]interface{}{"e": ss[1]}}) }},
	}
	wantVals := map[string]string{"r/@a": ss[0], "r/e": trim(ss[1]), "r/m": trim(ss[2]), "r/m/@b": ss[3], "r/x": trim(ss[4])}
	cmp := func(vals map[string]string) string {
		for k, w := range wantVals {
			g := vals[k]
			if !strings.Contains(k, "@") {
				g = trim(g)
			}
			if g != w {
				return fmt.Sprintf("%s: want %q, read %q", k, w, g)
			}
		}
		return ""
	}

	// clause 1: encoder-side escaping
	mxj.XMLEscapeChars(true)
	checkSwitches(c, "XMLEscapeChars(true)")
	for _, valid := range []bool{false, true} {
		mxj.XmlCheckIsValid(valid)
		for _, e := range encs {
			out, err := e.f()
			det := core.D{"clause": 1, "encoder": e.name, "validity_check": valid, "strings": ss[:], "output": string(out)}
			if err != nil {
				det["err"] = err.Error()
				c.Violate("c05-escaped-encode-error", e.name+" failed with value escaping enabled", det)
				continue
			}
			keep(c, e.name, out)
			vals, perr := readValues(out)
			if perr != nil {
				det["err"] = perr.Error()
				c.Violate("c05-escaped-illformed", e.name+" output is not well formed although value escaping is enabled", det)
				continue
			}
			if d := cmp(vals); d != "" {
				det["difference"] = d
				c.Violate("c05-escaped-value", e.name+": a value does not decode back to exactly the string that was encoded", det)
				continue
			}
			c.Add("clause1:values-read-back", 5)
		}
		for _, e := range shapeEncs {
			out, err := e.f()
			if err != nil {
				c.Violate("c05-escaped-encode-error", e.name+" failed with value escaping enabled", core.D{"clause": 1, "encoder": e.name, "strings": ss[:], "err": err.Error()})
			} else if terr := xt.StdAccepts(out); terr != nil {
				c.Violate("c05-escaped-illformed", e.name+" output is not well formed although value escaping is enabled", core.D{"clause": 1, "encoder": e.name, "strings": ss[:], "output": string(out), "err": terr.Error()})
			}
		}
	}
	mxj.XmlCheckIsValid(false)
	mxj.XMLEscapeChars(false)

	// clause 2: decoder-side escaping: decode then encode reproduces the original escaped values
	if r.Intn(2) == 0 {
		mxj.XMLEscapeCharsDecoder(true)
		checkSwitches(c, "XMLEscapeCharsDecoder(true)")
		if r.Intn(3) == 0 {
			// a cast-exemption hook is about casting, not about escaping: ambient noise
			mxj.SetCheckTagToSkipFunc(func(t string) bool { return len(t)%2 == 1 || strings.HasPrefix(t, "-") || strings.HasPrefix(t, "#") })
			defer mxj.SetCheckTagToSkipFunc(nil)
			c.Count("clause2:cast-skip-hook-installed")
		}
		root := &xt.Node{Local: "r", Attrs: []xt.Attr{{Local: "a", Val: ss[0]}, {Prefix: "ns", Local: "p", Val: ss[3]}, {Prefix: "xmlns", Local: "ns", Val: "urn:x" + ss[1]}, {Local: "xmlns", Val: "urn:d" + ss[4]}}}
		add := func(n *xt.Node) { root.Items = append(root.Items, xt.Item{Kind: xt.KElem, El: n}) }
		e := &xt.Node{Local: "e"}
		if ss[1] != "" {
			e.Items = []xt.Item{{Kind: xt.KText, Text: ss[1]}}
		}
		add(e)
		mm := &xt.Node{Local: "m", Attrs: []xt.Attr{{Local: "b", Val: ss[3]}}}
		if ss[2] != "" {
			mm.Items = []xt.Item{{Kind: xt.KText, Text: ss[2]}}
		}
		add(mm)
		x := &xt.Node{Local: "x"}
		if ss[4] != "" {
			x.Items = append(x.Items, xt.Item{Kind: xt.KText, Text: ss[4]})
		}
		x.Items = append(x.Items, xt.Item{Kind: xt.KElem, El: &xt.Node{Local: "k"}})
		add(x)
		doc := xt.Render(r, root, xt.Style{NoWS: true})
		srcVals, serr := readValues(doc)
		if serr != nil {
			c.Harness("C05 generator produced an ill-formed document: " + serr.Error() + " " + string(doc))
			return
		}
		c.Count("clause2:docs")
		m1, err := mxj.NewMapXml(doc)
		det := core.D{"clause": 2, "doc": string(doc)}
		if err != nil {
			det["err"] = err.Error()
			c.Violate("c05-decesc-decode-error", "NewMapXml failed under decoder-side escaping", det)
		} else {
			// Map values equal the reference escape of the decoded text
			rm, _ := m1["r"].(map[string]interface{})
			if got, _ := rm["-a"].(string); got != refEsc(ss[0]) {
				det["observed"], det["expected"] = got, refEsc(ss[0])
				c.Violate("c05-decesc-map-value", "attribute value in the Map is not the escaped text", det)
			}
			for _, e := range encs[:2] {
				var out []byte
				if e.name == "Map.Xml" {
					out, err = m1.Xml()
				} else {
					out, err = m1.XmlIndent("", indent)
				}
				c05clause2(c, e.name, doc, out, err, srcVals, trim)
			}
		}
		s1, err := mxj.NewMapXmlSeq(doc)
		if err != nil {
			det["err"] = err.Error()
			c.Violate("c05-decesc-decode-error", "NewMapXmlSeq failed under decoder-side escaping", det)
		} else {
			out, err := s1.Xml()
			c05clause2(c, "MapSeq.Xml", doc, out, err, srcVals, trim)
			out, err = s1.XmlIndent("", indent)
			c05clause2(c, "MapSeq.XmlIndent", doc, out, err, srcVals, trim)
		}
		mxj.XMLEscapeCharsDecoder(false)
	}

	// clause 3: escaping off, validity on: error or well-formed, never silent
	mxj.XMLEscapeChars(false)
	mxj.XmlCheckIsValid(true)
	if r.Intn(4) == 0 {
		// a decoder option (incl. extra entities the *decoders* accept) does not change what "well formed" means for the encoders
		mxj.CustomDecoder = &xml.Decoder{Strict: r.Intn(2) == 0}
		if r.Intn(2) == 0 {
			mxj.CustomDecoder.Entity = map[string]string{"nbsp": "\u00a0", "foo": "bar"}
		}
		c.Count("ambient:custom-decoder")
	}
	if r.Intn(3) == 0 {
		// decoder options are no business of the encoders' validity check either
		mxj.HandleXMPPStreamTag(r.Intn(2) == 0)
		mxj.CoerceKeysToLower(r.Intn(2) == 0)
		mxj.DecodeSimpleValuesAsMap(r.Intn(2) == 0)
		mxj.IncludeTagSeqNum(r.Intn(2) == 0)
		c.Count("ambient:decoder-options-under-validity-check")
	}
	mStream := mxj.Map{"stream": map[string]interface{}{"a": ss[0], "b": map[string]interface{}{"#text": ss[1], "-c": ss[2]}}}
	msStream := mxj.MapSeq{"stream": map[string]interface{}{"a": map[string]interface{}{"#text": ss[0], "#seq": 0}, "b": map[string]interface{}{"#text": ss[1], "#seq": 1}}}
	streamEncs := []encT{
		{"Map.Xml(root named stream)", func() ([]byte, error) { return mStream.Xml() }},
		{"Map.XmlIndent(root named stream)", func() ([]byte, error) { return mStream.XmlIndent("", indent) }},
		{"MapSeq.Xml(root named stream)", func() ([]byte, error) { return msStream.Xml() }},
		{"MapSeq.XmlIndent(root named stream)", func() ([]byte, error) { return msStream.XmlIndent("", indent) }},
	}
	for _, e := range append(append(append([]encT{}, encs...), shapeEncs[:6]...), streamEncs...) {
		out, err := e.f()
		if err != nil {
			c.Count("clause3:error-returned")
			continue
		}
		if terr := xt.StdAccepts(out); terr != nil {
			c.Violate("c05-silent-invalid:"+e.name, e.name+" returned ill-formed XML with a nil error although validity checking is on",
				core.D{"clause": 3, "encoder": e.name, "strings": ss[:], "output": string(out), "tokenizer_error": terr.Error()})
		} else {
			c.Count("clause3:valid-output")
		}
	}
}

func c05clause2(c *core.Ctx, name string, doc, out []byte, err error, srcVals map[string]string, trim func(string) string) {
	det := core.D{"clause": 2, "encoder": name, "doc": string(doc), "output": string(out)}
	if err != nil {
		det["err"] = err.Error()
		c.Violate("c05-decesc-encode-error", name+" failed on a Map decoded with decoder-side escaping", det)
		return
	}
	vals, perr := readValues(out)
	if perr != nil {
		det["err"] = perr.Error()
		c.Violate("c05-decesc-illformed", name+" output is not well formed after decode with decoder-side escaping", det)
		return
	}
	for k, w := range srcVals {
		g := vals[k]
		if !strings.Contains(k, "@") {
			g, w = trim(g), trim(w)
		}
		if g != w {
			det["difference"] = fmt.Sprintf("%s: document %q, after decode+encode %q", k, w, g)
			c.Violate("c05-decesc-value", name+": decode followed by encode does not reproduce the original value", det)
			return
		}
	}
}
