package mon

import (
	"bytes"
	"encoding/xml"
	"fmt"
	"io"
	"regexp"
	"strings"

	mxj "github.com/clbanning/mxj/v2"

	"verif/internal/core"
	"verif/internal/xt"
)

// C04 - ordered token-stream monitor for the sequence-preserving codec.
type c04 struct{}

func init() { register(c04{}) }

func (c04) Meta() core.Meta {
	return core.Meta{
		ID: "C04", Level: "exploration",
		Rule:        "case i = f(seed,i): generated document starting at its root element: prefix-preserving names from a small colliding alphabet (arbitrary interleaving of equally and differently named siblings; in 1/5 of the cases every permutation-like shuffle of 2-4 names), attributes incl. xmlns declarations in a fixed order, at most one comment / directive / processing instruction per element, text alone or before the child elements, values with the five specials, blanks, non-ASCII, number look-alikes; default and alternative global key prefix; value escaping on. The document and every output (MapSeq.Xml, MapSeq.XmlIndent, BeautifyXml, NewMapFormattedXmlSeq(indented).Xml) are tokenised with the std RawToken and normalised (whitespace-only text dropped, text trimmed); the streams must be equal token by token; re-decoding the indented form must re-encode to the same compact bytes. Non-trivial: >=3 elements and (interleaved repeat or comment/directive/PI or >=2 attributes on an element); distinct by hash(doc, key prefix).",
		Assumptions: []string{"the std RawToken stream defines 'the original token stream'", "inter-element whitespace is formatting (trimmed by the decoder under its default options)"},
		Anchors:     []string{"NewMapXmlSeq", "xmlSeqToMapParser", "MapSeq.Xml", "MapSeq.XmlIndent", "mapToXmlSeqIndent", "elemListSeq.Less", "BeautifyXml", "NewMapFormattedXmlSeq"},
		Floors:      map[string]int64{"feature:interleaved": 500, "feature:misc": 1000, "feature:text-before-children": 300, "feature:xmlns-attr": 300, "feature:multi-attr": 1000, "altkeyprefix": 500},
	}
}

func (c04) Cases(tier string, race bool) int {
	if race {
		return 0
	}
	if tier == "thorough" {
		return 400000
	}
	return 40000
}

var c04gen = xt.GenCfg{Names: []string{"a", "b", "c", "d", "x-y", "Ab", ":item", ":a"}, Prefixes: []string{"", "", "", "ns", "n2"}, Texts: c02texts, MaxKids: 5, MaxAttrs: 4, WideProb: 60, SeqMode: true}

var formattedRe = regexp.MustCompile(`>[\n\t\r ]*<`)

// tokenStream: the normalised RawToken stream of doc.
func tokenStream(doc []byte) ([]string, error) {
	d := xml.NewDecoder(bytes.NewReader(doc))
	var out []string
	depth := 0
	for {
		t, err := d.RawToken()
		if err == io.EOF {
			if depth != 0 {
				return out, fmt.Errorf("unbalanced: depth %d at EOF", depth)
			}
			return out, nil
		}
		if err != nil {
			return out, err
		}
		switch tt := t.(type) {
		case xml.StartElement:
			s := "S:" + xt.QN(tt.Name.Space, tt.Name.Local)
			for _, a := range tt.Attr {
				s += fmt.Sprintf(" %s=%q", xt.QN(a.Name.Space, a.Name.Local), a.Value)
			}
			out = append(out, s)
			depth++
		case xml.EndElement:
			out = append(out, "E:"+xt.QN(tt.Name.Space, tt.Name.Local))
			depth--
		case xml.CharData:
			if s := strings.Trim(string(tt), "\t\r\n "); s != "" {
				out = append(out, "T:"+s)
			}
		case xml.Comment:
			out = append(out, "C:"+string(tt))
		case xml.ProcInst:
			out = append(out, "P:"+tt.Target+" "+string(tt.Inst))
		case xml.Directive:
			out = append(out, "D:"+string(tt))
		}
	}
}

func firstDiff(a, b []string) string {
	for i := 0; i < len(a) || i < len(b); i++ {
		var x, y string
		if i < len(a) {
			x = a[i]
		}
		if i < len(b) {
			y = b[i]
		}
		if x != y {
			return fmt.Sprintf("token %d: source %q vs output %q", i, x, y)
		}
	}
	return ""
}

func (c04) Case(c *core.Ctx) {
	r := c.R
	root := c04gen.Gen(r, 1+r.Intn(4))
	if r.Intn(5) == 0 {
		// systematic-ish: a parent whose children are a shuffle of 2-4 names, several times each
		names := []string{"a", "b", "c", "d"}[:2+r.Intn(3)]
		p := &xt.Node{Local: "list"}
		for i, n := 0, 3+r.Intn(8); i < n; i++ {
			k := c04gen.Gen(r, r.Intn(2))
			k.Local, k.Prefix = names[r.Intn(len(names))], ""
			p.Items = append(p.Items, xt.Item{Kind: xt.KElem, El: k})
		}
		root.Items = append(root.Items, xt.Item{Kind: xt.KElem, El: p})
	}
	kp := "#"
	if r.Intn(4) == 0 {
		kp = []string{"%", "_", "&"}[r.Intn(3)]
		c.Count("altkeyprefix")
	}
	// an element named like one of the reserved keys under the current key prefix (_seq, _attr, _text, ...) is outside
	// the domain: the MapSeq representation cannot tell it from the reserved entry
	reservedClash := false
	root.Walk(func(e *xt.Node) {
		for _, rn := range []string{"seq", "attr", "text", "comment", "directive", "procinst", "target", "inst"} {
			if e.Local == kp+rn && e.Prefix == "" {
				reservedClash = true
			}
		}
	})
	if reservedClash {
		c.Count("skipped:outside-domain")
		return
	}
	doc := xt.Render(r, root, xt.Style{NoWS: r.Intn(2) == 0})
	want, werr := tokenStream(doc)
	if werr != nil {
		c.Harness("C04 generator produced an ill-formed document: " + werr.Error() + "\n" + string(doc))
		return
	}
	f := root.Features()
	multiAttr, xmlns, textBefore := false, false, false
	root.Walk(func(e *xt.Node) {
		if len(e.Attrs) >= 2 {
			multiAttr = true
		}
		for _, a := range e.Attrs {
			if a.Prefix == "xmlns" {
				xmlns = true
			}
		}
		if t, ok := e.TextRun(); ok && strings.Trim(t, "\t\r\n ") != "" && len(e.Items) > 1 {
			textBefore = true
		}
	})
	if f.Interleaved {
		c.Count("feature:interleaved")
	}
	if f.Misc {
		c.Count("feature:misc")
	}
	if multiAttr {
		c.Count("feature:multi-attr")
	}
	if xmlns {
		c.Count("feature:xmlns-attr")
	}
	if textBefore {
		c.Count("feature:text-before-children")
	}
	if f.Elements >= 3 && (f.Interleaved || f.Misc || multiAttr) {
		c.NonTrivial(string(doc), kp)
	}
	if c.WantSample() && f.Elements >= 3 && f.Misc && len(doc) < 250 {
		c.Sample(core.D{"doc": string(doc), "key_prefix": kp, "tokens": want})
	}

	mxj.SetGlobalKeyMapPrefix(kp)
	if r.Intn(3) == 0 {
		// decoder-side escaping is the other symmetric way to keep values intact through the sequence codec
		mxj.XMLEscapeCharsDecoder(true)
		c.Count("decoder-side-escaping")
	} else {
		mxj.XMLEscapeChars(true)
	}
	defer ResetDefaults()
	if c.R.Intn(8) == 0 {
		// the other spelling of empty elements (<a></a> instead of <a/>): documented to change nothing else
		mxj.XmlGoEmptyElemSyntax()
		c.Count("option:go-empty-element-syntax")
	}
	defer verifyKept(c, "c04-retained-output-changed")
	c.Eval()
	failedCalls(c, 8)
	indent := []string{"  ", "\t", " ", "    "}[r.Intn(4)]
	prefix := []string{"", "", " ", "\t"}[r.Intn(4)]

	ms, err := mxj.NewMapXmlSeq(doc)
	if err != nil {
		c.Violate("c04-decode-error", "NewMapXmlSeq failed on a well-formed document", core.D{"doc": string(doc), "err": err.Error()})
		return
	}
	class := func(base string) string {
		// classifier: text beside a comment/PI/directive (position of the text run relative to them)
		if textBefore && f.Misc {
			return base + "+text-with-misc"
		}
		return base
	}
	var compact []byte
	check := func(kind string, fn func() ([]byte, error)) []byte {
		out, err := fn()
		det := core.D{"api": kind, "doc": string(doc), "key_prefix": kp, "output": string(out)}
		if err != nil {
			det["err"] = err.Error()
			c.Violate(class("c04-encode-error"), kind+" failed", det)
			return nil
		}
		keep(c, kind, out)
		got, gerr := tokenStream(out)
		if gerr != nil {
			det["err"] = gerr.Error()
			c.Violate(class("c04-illformed"), kind+" output is not well formed", det)
			return nil
		}
		if d := firstDiff(want, got); d != "" {
			det["first_difference"] = d
			c.Violate(class("c04-stream"), kind+" does not reproduce the original token stream", det)
			return nil
		}
		return out
	}
	compact = check("MapSeq.Xml", func() ([]byte, error) { return ms.Xml() })
	if r.Intn(8) == 0 {
		// the same document through the reader entry point, delivered by a reader that stalls (a long run of legal
		// (0,nil) reads at one position): same token stream
		c.Count("decoded-through-stalling-reader")
		hr := &hostileReader{data: doc, zeroAt: map[int]int{r.Intn(len(doc)): 90 + r.Intn(200)}, budget: len(doc) + 400}
		check("NewMapXmlSeqReader(stalling reader).Xml", func() ([]byte, error) {
			m2, err := mxj.NewMapXmlSeqReader(hr)
			if err != nil {
				return nil, err
			}
			return m2.Xml()
		})
	}
	xi := check("MapSeq.XmlIndent", func() ([]byte, error) { return ms.XmlIndent(prefix, indent) })
	check("BeautifyXml", func() ([]byte, error) { return mxj.BeautifyXml(doc, prefix, indent) })
	// NewMapFormattedXmlSeq documents that it strips whitespace between '>' and '<' textually; a document whose
	// comments / instructions / CDATA contain such a run is outside what it can reproduce
	hazard := false
	if hs, herr := tokenStream(formattedRe.ReplaceAll(doc, []byte("><"))); herr != nil || firstDiff(want, hs) != "" {
		hazard = true
		c.Count("skipped-formatted-redecode:markup-like-run-inside-comment-or-cdata")
	}
	if xi != nil && compact != nil && !hazard {
		out := check("NewMapFormattedXmlSeq(indented).Xml", func() ([]byte, error) {
			m2, err := mxj.NewMapFormattedXmlSeq(xi)
			if err != nil {
				return nil, err
			}
			return m2.Xml()
		})
		if out != nil && !bytes.Equal(out, compact) {
			c.Violate(class("c04-reencode-differs"), "re-decoding the indented form does not re-encode to the same compact bytes", core.D{"doc": string(doc), "compact": string(compact), "after_indent_roundtrip": string(out)})
		}
	}
}
