// Package xt: abstract XML trees (XTree), a seeded generator, a renderer with
// syntactic variety that must not matter, and an independent observer that
// rebuilds an XTree from bytes with the standard tokenizer. Nothing here calls
// into mxj.
package xt

import (
	"bytes"
	"encoding/xml"
	"fmt"
	"io"
	"math/rand"
	"strings"
)

const (
	KElem = iota
	KText
	KComment
	KDirective
	KPI
)

type Attr struct{ Prefix, Local, Val string }

type Item struct {
	Kind   int
	El     *Node
	Text   string // text run / comment / directive / PI instruction
	Target string // PI target
}

type Node struct {
	Prefix, Local string
	Attrs         []Attr
	Items         []Item
}

func QN(p, l string) string {
	if p == "" {
		return l
	}
	return p + ":" + l
}

func (n *Node) Name() string { return QN(n.Prefix, n.Local) }

func (n *Node) Kids() []*Node {
	var ks []*Node
	for _, it := range n.Items {
		if it.Kind == KElem {
			ks = append(ks, it.El)
		}
	}
	return ks
}

// TextRun returns the element's single text run ("" if none) and whether one exists.
func (n *Node) TextRun() (string, bool) {
	for _, it := range n.Items {
		if it.Kind == KText {
			return it.Text, true
		}
	}
	return "", false
}

func (n *Node) Depth() int {
	d := 0
	for _, k := range n.Kids() {
		if e := k.Depth() + 1; e > d {
			d = e
		}
	}
	return d
}

func (n *Node) Walk(f func(*Node)) {
	f(n)
	for _, k := range n.Kids() {
		k.Walk(f)
	}
}

// Features summarises what makes a document non-trivial.
type Features struct {
	Repeat, Interleaved, Attr, MixedText, NSPrefix, Wide, Misc bool
	Elements                                                   int
}

func (n *Node) Features() Features {
	var f Features
	n.Walk(func(e *Node) {
		f.Elements++
		if len(e.Attrs) > 0 {
			f.Attr = true
		}
		if e.Prefix != "" {
			f.NSPrefix = true
		}
		kids := e.Kids()
		if len(kids) > 32 {
			f.Wide = true
		}
		last := map[string]int{}
		for i, k := range kids {
			if j, ok := last[k.Local]; ok {
				f.Repeat = true
				if j != i-1 {
					f.Interleaved = true
				}
			}
			last[k.Local] = i
		}
		if t, ok := e.TextRun(); ok && strings.Trim(t, "\t\r\n ") != "" && (len(kids) > 0 || len(e.Attrs) > 0) {
			f.MixedText = true
		}
		for _, it := range e.Items {
			if it.Kind >= KComment {
				f.Misc = true
			}
		}
	})
	return f
}

// ---------------- generator ----------------

var DefNames = []string{"a", "b", "c", "d", "Ab", "aB", "a-b", "a_b", "x", "long-Name_1", "Ünit", "ünit", "Ärger-x", "a-b-c", "br", "link", "\u1f88ta"}
var DefPrefixes = []string{"", "", "", "", "ns", "n2"}

// Text classes the suite never samples.
var DefTexts = []string{
	"", "", "t", "hello world", " pad ", "\tx\n", "x\ty", "a\nb", "<&>\"'", "a<b", "&amp;", "&lt;tag&gt;", "&#x41;", "&#65;",
	"a]]>b", "<![CDATA[x]]>", "é世界", "it's", "say \"hi\"", "x>y", "1<2", "AT&T", "100%", "%d %s", "%%", "x > y", "a >\n  b", "\u00a0", "\u00a0nbsp\u00a0", "\u3000wide\u2003", "x\u0085", "  ", "\n", "\t\n ", "a\rb",
	"1", "-0", "1.50", "1e3", "0x1p-2", "1_000", "1e999", "+5", "007", "9223372036854775807", "9223372036854775808",
	"-9223372036854775808", "18446744073709551615", "18446744073709551616", ".5", "5.",
	"NaN", "nan", "NAN", "Inf", "inf", "+Inf", "-Inf", "-inf", "+inf", "Infinity", "-infinity", "+INFINITY", "iNf",
	"true", "TRUE", "True", "t", "T", "false", "F", "f", "tRuE", "yes", "truthy", "0", "no",
	"\ufeffbom", "edge\ufeff", "mid\ufeffdle", `lit\u2028eral \u003c`, "010", "0x1F", "0b101", "0o17", "08", ".25e2", "1e-320", "5e-324",
}

func init() {
	// numerals longer than the shortest decimal form of any float64 (leading zeros, long fractions)
	DefTexts = append(DefTexts, strings.Repeat("0", 350)+"7", "1."+strings.Repeat("0", 340), "line 1\n\nline 3", "x\n \n\t\ny")
}

type GenCfg struct {
	Names, Prefixes, Texts []string
	MaxDepth, MaxKids      int
	MaxAttrs               int
	WideProb               int  // 1/WideProb chance of a wide element (35..80 kids)
	SeqMode                bool // C04 domain: text alone or before children; comments/directives/PIs; xmlns attrs
	NoText                 bool
	// AutoNames / AutoTexts: literals of the tree under test (see mon/autodict.go); one pick in AutoEvery comes from them.
	AutoNames, AutoTexts []string
	AutoEvery            int
	AttrCollide          bool // allow two attributes of one element to share a local name (under different prefixes)
}

func (g GenCfg) name(r *rand.Rand) string {
	if len(g.AutoNames) > 0 && g.AutoEvery > 0 && r.Intn(g.AutoEvery) == 0 {
		return g.AutoNames[r.Intn(len(g.AutoNames))]
	}
	return g.pick(r, g.Names)
}

func (g GenCfg) text(r *rand.Rand) string {
	if len(g.AutoTexts) > 0 && g.AutoEvery > 0 && r.Intn(g.AutoEvery) == 0 {
		return g.AutoTexts[r.Intn(len(g.AutoTexts))]
	}
	return g.pick(r, g.Texts)
}

func (g GenCfg) pick(r *rand.Rand, l []string) string { return l[r.Intn(len(l))] }

func foldKey(s string) string {
	return strings.ToLower(strings.Replace(s, "-", "_", -1))
}

func (g GenCfg) Gen(r *rand.Rand, depth int) *Node {
	n := &Node{Prefix: g.pick(r, g.Prefixes), Local: g.name(r)}
	if strings.HasPrefix(n.Local, ":") {
		n.Prefix = "" // (a name that starts with a colon is legal XML 1.0 only without a prefix)
	}
	na := 0
	if g.MaxAttrs > 0 {
		na = r.Intn(g.MaxAttrs + 1)
	}
	seen := map[string]bool{}
	for i := 0; i < na; i++ {
		a := Attr{Prefix: g.pick(r, g.Prefixes), Local: g.name(r), Val: g.text(r)}
		if strings.HasPrefix(a.Local, ":") {
			a.Prefix = ""
		}
		k := foldKey(a.Local)
		if g.SeqMode {
			k = QN(a.Prefix, a.Local)
			if r.Intn(6) == 0 {
				a = Attr{Prefix: "xmlns", Local: g.pick(r, []string{"ns", "n2", "q"}), Val: "urn:x:" + g.pick(r, g.Names)}
				k = QN(a.Prefix, a.Local)
			}
		}
		if seen[k] {
			if !g.AttrCollide || seen[QN(a.Prefix, a.Local)] || r.Intn(2) == 0 {
				continue
			}
		}
		seen[k] = true
		seen[QN(a.Prefix, a.Local)] = true
		n.Attrs = append(n.Attrs, a)
	}
	var kids []*Node
	if depth > 0 {
		nk := r.Intn(g.MaxKids + 1)
		if g.WideProb > 0 && r.Intn(g.WideProb) == 0 {
			nk = 35 + r.Intn(46)
		}
		wideSame := r.Intn(2) == 0
		for i := 0; i < nk; i++ {
			d := depth - 1 - r.Intn(2)
			if nk > 30 {
				d = r.Intn(2)
			}
			if d > depth-1 {
				d = depth - 1
			}
			if d < 0 {
				d = 0
			}
			k := g.Gen(r, d)
			if nk > 30 && wideSame {
				k.Local, k.Prefix = kids0name(kids, k)
			}
			kids = append(kids, k)
		}
	}
	text := ""
	if !g.NoText {
		text = g.text(r)
	}
	pos := r.Intn(len(kids) + 1)
	if g.SeqMode {
		pos = 0 // alone or before the children
	}
	for i, k := range kids {
		if i == pos && text != "" {
			n.Items = append(n.Items, Item{Kind: KText, Text: text})
		}
		n.Items = append(n.Items, Item{Kind: KElem, El: k})
	}
	if pos == len(kids) && text != "" {
		n.Items = append(n.Items, Item{Kind: KText, Text: text})
	}
	if g.SeqMode {
		n.addMisc(r, text != "")
	}
	return n
}

func kids0name(kids []*Node, k *Node) (string, string) {
	if len(kids) == 0 {
		return k.Local, k.Prefix
	}
	return kids[0].Local, kids[0].Prefix
}

// addMisc inserts at most one comment, directive and PI among the items, never
// adjacent to the text run (that would split or move it: outside the domain).
func (n *Node) addMisc(r *rand.Rand, hasText bool) {
	misc := []Item{}
	if r.Intn(4) == 0 {
		misc = append(misc, Item{Kind: KComment, Text: []string{" c ", "note", "a-b", "x<y&z", "", "a> <b", "p>\n\t<q", "42", "true", "1.5e3", "l1\n\nl3"}[r.Intn(11)]})
	}
	if r.Intn(8) == 0 {
		misc = append(misc, Item{Kind: KDirective, Text: []string{"ENTITY e \"v\"", "X y", "DOCTYPE q", "ENTITY f \"v> <w\"", "7", "false"}[r.Intn(6)]})
	}
	if r.Intn(6) == 0 {
		misc = append(misc, Item{Kind: KPI, Target: []string{"pi", "php", "x-y"}[r.Intn(3)], Text: []string{"a=\"b\"", "do it", "x", "x> <y", "echo 1; ", "x\t", "href=\"a\"\n "}[r.Intn(7)]})
	}
	for _, m := range misc {
		lo := 0
		if hasText {
			// text is first: a misc item may sit only after the first child element
			lo = 2
			if len(n.Items) < 2 {
				continue
			}
		}
		p := lo + r.Intn(len(n.Items)-lo+1)
		n.Items = append(n.Items[:p], append([]Item{m}, n.Items[p:]...)...)
	}
}

// ---------------- renderer ----------------

type Style struct {
	KeepSpaces bool // blanks are significant: no spaces in inter-element whitespace
	NoWS       bool // no inter-element whitespace at all (sequence decoder domain)
	Compact    bool // deterministic minimal rendering (no variety)
}

func EscText(r *rand.Rand, s string, attr bool, st Style) string {
	var b strings.Builder
	for i, c := range s {
		if c == '>' && i >= 2 && s[i-2:i] == "]]" {
			b.WriteString("&gt;")
			continue
		}
		v := 0
		if !st.Compact {
			v = r.Intn(6)
		}
		switch c {
		case '<':
			b.WriteString([]string{"&lt;", "&#60;", "&#x3c;", "&lt;", "&lt;", "&#x3C;"}[v])
		case '&':
			b.WriteString([]string{"&amp;", "&#38;", "&amp;", "&#x26;", "&amp;", "&amp;"}[v])
		case '>':
			b.WriteString([]string{"&gt;", ">", "&#62;", "&gt;", ">", "&gt;"}[v])
		case '"':
			if attr {
				b.WriteString([]string{"&quot;", "&#34;", "&quot;", "&quot;", "&#x22;", "&quot;"}[v])
			} else {
				b.WriteString([]string{"&quot;", "\"", "&#34;", "\"", "&quot;", "\""}[v])
			}
		case '\'':
			if attr {
				b.WriteString([]string{"&apos;", "&#39;", "&apos;", "&apos;", "&#x27;", "&apos;"}[v])
			} else {
				b.WriteString([]string{"&apos;", "'", "&#39;", "'", "&apos;", "'"}[v])
			}
		case '\r':
			b.WriteString([]string{"&#13;", "&#xD;", "&#13;", "&#xd;", "&#13;", "&#13;"}[v])
		case '\n', '\t':
			if attr {
				fmt.Fprintf(&b, "&#%d;", c)
			} else {
				b.WriteRune(c)
			}
		default:
			if !st.Compact && c > ' ' && r.Intn(15) == 0 {
				fmt.Fprintf(&b, "&#x%x;", c)
			} else {
				b.WriteRune(c)
			}
		}
	}
	return b.String()
}

func ws(r *rand.Rand, st Style) string {
	if st.NoWS || st.Compact {
		return ""
	}
	opts := []string{"", "", "", "\n", "\n\t", "\t", "\n\n"}
	if !st.KeepSpaces {
		opts = append(opts, " ", "\n  ", "  ")
	}
	return opts[r.Intn(len(opts))]
}

func Render(r *rand.Rand, n *Node, st Style) []byte {
	var b strings.Builder
	render(r, n, st, &b)
	return []byte(b.String())
}

func render(r *rand.Rand, n *Node, st Style, b *strings.Builder) {
	b.WriteString("<" + n.Name())
	for _, a := range n.Attrs {
		q := `"`
		if !st.Compact && r.Intn(2) == 0 {
			q = `'`
		}
		sp := " "
		if !st.Compact && !st.NoWS && r.Intn(8) == 0 {
			sp = "\n "
		}
		b.WriteString(sp + QN(a.Prefix, a.Local) + "=" + q + EscText(r, a.Val, true, st) + q)
	}
	if len(n.Items) == 0 {
		if st.Compact || r.Intn(2) == 0 {
			b.WriteString("/>")
		} else {
			b.WriteString("></" + n.Name() + ">")
		}
		return
	}
	b.WriteString(">")
	prevText := false
	for i, it := range n.Items {
		nextText := i+1 < len(n.Items) && n.Items[i+1].Kind == KText
		switch it.Kind {
		case KText:
			if !st.Compact && !strings.Contains(it.Text, "]]>") && !strings.Contains(it.Text, "\r") && r.Intn(3) == 0 {
				b.WriteString("<![CDATA[" + it.Text + "]]>")
			} else {
				b.WriteString(EscText(r, it.Text, false, st))
			}
			prevText = true
			continue
		case KElem:
			if !prevText {
				b.WriteString(ws(r, st))
			}
			render(r, it.El, st, b)
		case KComment:
			if !prevText {
				b.WriteString(ws(r, st))
			}
			b.WriteString("<!--" + it.Text + "-->")
		case KDirective:
			if !prevText {
				b.WriteString(ws(r, st))
			}
			b.WriteString("<!" + it.Text + ">")
		case KPI:
			if !prevText {
				b.WriteString(ws(r, st))
			}
			b.WriteString("<?" + it.Target + " " + it.Text + "?>")
		}
		prevText = false
		_ = nextText
	}
	if !prevText {
		b.WriteString(ws(r, st))
	}
	b.WriteString("</" + n.Name() + ">")
}

// Prolog returns bytes that may legally precede the root without changing what NewMapXml returns.
func Prolog(r *rand.Rand) string {
	return []string{"", "", "", "<?xml version=\"1.0\" encoding=\"UTF-8\"?>", "<?xml version=\"1.0\"?>\n", "\n  ", "<!-- lead -->", "\xef\xbb\xbf",
		"<!DOCTYPE r>\n", "<?xml version=\"1.0\"?><!-- c --><!DOCTYPE r>\n"}[r.Intn(10)]
}

// ---------------- independent observer: std tokenizer -> XTree ----------------

// Parse builds an XTree from bytes with encoding/xml's RawToken (prefix-preserving),
// checking nesting itself. Whitespace-only text between items is dropped unless
// keepBlank; adjacent CharData tokens are merged into one run.
// Returns the first root and the number of root elements seen.
func Parse(doc []byte, keepBlank bool) (*Node, int, error) {
	d := xml.NewDecoder(bytes.NewReader(doc))
	var stack []*Node
	var root *Node
	roots := 0
	for {
		t, err := d.RawToken()
		if err == io.EOF {
			break
		}
		if err != nil {
			return nil, roots, err
		}
		switch tt := t.(type) {
		case xml.StartElement:
			n := &Node{Prefix: tt.Name.Space, Local: tt.Name.Local}
			for _, a := range tt.Attr {
				n.Attrs = append(n.Attrs, Attr{Prefix: a.Name.Space, Local: a.Name.Local, Val: a.Value})
			}
			if len(stack) == 0 {
				roots++
				if root == nil {
					root = n
				}
			} else {
				p := stack[len(stack)-1]
				p.Items = append(p.Items, Item{Kind: KElem, El: n})
			}
			stack = append(stack, n)
		case xml.EndElement:
			if len(stack) == 0 {
				return nil, roots, fmt.Errorf("stray end tag </%s>", QN(tt.Name.Space, tt.Name.Local))
			}
			top := stack[len(stack)-1]
			if top.Prefix != tt.Name.Space || top.Local != tt.Name.Local {
				return nil, roots, fmt.Errorf("mismatched end tag </%s> for <%s>", QN(tt.Name.Space, tt.Name.Local), top.Name())
			}
			stack = stack[:len(stack)-1]
		case xml.CharData:
			if len(stack) == 0 {
				if strings.Trim(string(tt), "\t\r\n \ufeff") != "" {
					return nil, roots, fmt.Errorf("text outside the root: %q", string(tt))
				}
				continue
			}
			p := stack[len(stack)-1]
			if k := len(p.Items); k > 0 && p.Items[k-1].Kind == KText {
				p.Items[k-1].Text += string(tt)
			} else {
				p.Items = append(p.Items, Item{Kind: KText, Text: string(tt)})
			}
		case xml.Comment:
			if len(stack) > 0 {
				p := stack[len(stack)-1]
				p.Items = append(p.Items, Item{Kind: KComment, Text: string(tt)})
			}
		case xml.Directive:
			if len(stack) > 0 {
				p := stack[len(stack)-1]
				p.Items = append(p.Items, Item{Kind: KDirective, Text: string(tt)})
			}
		case xml.ProcInst:
			if len(stack) > 0 {
				p := stack[len(stack)-1]
				p.Items = append(p.Items, Item{Kind: KPI, Target: tt.Target, Text: string(tt.Inst)})
			}
		}
	}
	if len(stack) != 0 {
		return nil, roots, fmt.Errorf("unclosed element <%s>", stack[len(stack)-1].Name())
	}
	if root == nil {
		return nil, 0, fmt.Errorf("no root element")
	}
	if !keepBlank {
		root.Walk(func(e *Node) {
			out := e.Items[:0]
			for _, it := range e.Items {
				if it.Kind == KText && strings.Trim(it.Text, "\t\r\n ") == "" {
					continue
				}
				out = append(out, it)
			}
			e.Items = out
		})
	}
	return root, roots, nil
}

// WellFormed runs the strict std tokenizer to EOF and checks there is exactly
// one root element and no text outside it.
func WellFormed(doc []byte) error {
	d := xml.NewDecoder(bytes.NewReader(doc))
	depth, roots := 0, 0
	for {
		t, err := d.Token()
		if err == io.EOF {
			break
		}
		if err != nil {
			return err
		}
		switch tt := t.(type) {
		case xml.StartElement:
			if depth == 0 {
				roots++
			}
			depth++
		case xml.EndElement:
			depth--
		case xml.CharData:
			if depth == 0 && strings.Trim(string(tt), "\t\r\n \ufeff") != "" {
				return fmt.Errorf("text outside the root element: %q", string(tt))
			}
		}
	}
	if roots != 1 {
		return fmt.Errorf("%d root elements", roots)
	}
	return nil
}

// StdAccepts: the strict std tokenizer consumes doc to EOF without error.
func StdAccepts(doc []byte) error {
	d := xml.NewDecoder(bytes.NewReader(doc))
	for {
		_, err := d.Token()
		if err == io.EOF {
			return nil
		}
		if err != nil {
			return err
		}
	}
}

// String renders the tree compactly for witnesses.
func (n *Node) String() string {
	return string(Render(rand.New(rand.NewSource(1)), n, Style{Compact: true}))
}
