package mon

import (
	"encoding/json"
	"fmt"
	"math/rand"
	"reflect"
	"strconv"
	"strings"

	mxj "github.com/clbanning/mxj/v2"
	"github.com/clbanning/mxj/v2/j2x"

	"verif/internal/core"
	"verif/internal/jv"
)

// C10 - frame / soundness / completeness / count monitor for UpdateValuesForPath,
// made unambiguous by a unique sentinel as the new value.
type c10 struct{}

func init() { register(c10{}) }

func (c10) Meta() core.Meta {
	return core.Meta{
		ID: "C10", Level: "exploration",
		Rule:        "case i = f(seed,i): JSON/XML-shaped Map over a 4-key alphabet (k present at several levels, absent at the addressed node, list as the node before the last key, list- and map-valued targets) + key k + plain/wildcard path in both addressing forms (path ends in k / k is an entry of the nodes the path yields) + 0..2 sub-key conditions (numeric ones incl. near misses of real values; separators ':' '|' ';' and the multi-byte '=>' '::' '§') + new value given as a single-entry map (string, number or map sentinel), as mxj.Map, or as a 'key:value[:type]' string (default and alternative separator). The new value is a sentinel that occurs nowhere in the Map, so the set of replaced slots is read off the result. Invariants: frame (everything but sentinel slots unchanged, nothing added or removed), soundness and completeness of the sentinel slots against the reference addressed set (three-valued sub-key predicate; for a list-valued target the condition may be read on the parent or on the members), count == number of sentinel slots, count 0 => untouched, ValuesForPath afterwards == count copies when the path ends in k without sub-keys; j2x wrapper returns the encoding of the result. Also: the typed bool form; (I6) in a third of the cases whose path does not start with a wildcard one list of the Map is stored a second time under an unaddressed top-level key and must keep its members (same objects, equal scalars, same order); new values of no documented form must leave the Map untouched whenever an error or a count of zero is reported. Non-trivial: at least one addressed slot; distinct by hash(map,k,path,subkeys).",
		Assumptions: []string{"reference addressed-slot set written from the property statement (DESIGN 4 C10)", "a negated typed sub-key on an absent key is unspecified"},
		Anchors:     []string{"Map.UpdateValuesForPath", "updateValuesForKeyPath", "updateValue", "j2x.JsonUpdateValsForPath"},
		Floors:      map[string]int64{"addressed>0": 3000, "addressed>1": 300, "shape:list-before-last-key": 200, "shape:key-absent-at-node": 500, "shape:wildcard-last": 200, "shape:list-valued-target": 100, "subkeys:some-replaced": 100, "form:string": 1000, "form:typed-num": 200, "alias:list-stored-twice": 1000, "form:typed-bool": 300, "malformed-newval:error": 300},
	}
}

func (c10) Cases(tier string, race bool) int {
	if race {
		return 0
	}
	if tier == "thorough" {
		return 1500000
	}
	return 150000
}

var c10keys = []string{"a", "b", "c", "k", "Kk", "aB"}

type nv struct {
	v   interface{}
	loc string
}

// walkNodes: nodes reached by a plain/wildcard prefix (list transparency), without final expansion.
func walkNodes(start []nv, segs []string) []nv {
	cur := start
	for _, s := range segs {
		var next []nv
		step := func(m map[string]interface{}, loc string) {
			if s == "*" {
				for _, k := range sortedKeys(m) {
					next = append(next, nv{m[k], loc + "/" + k})
				}
			} else if v, ok := m[s]; ok {
				next = append(next, nv{v, loc + "/" + s})
			}
		}
		for _, n := range cur {
			switch t := n.v.(type) {
			case map[string]interface{}:
				step(t, n.loc)
			case []interface{}:
				for i, e := range t {
					el := n.loc + "/" + strconv.Itoa(i)
					if m, ok := e.(map[string]interface{}); ok {
						step(m, el)
					} else if s == "*" {
						next = append(next, nv{e, el})
					}
				}
			}
		}
		cur = next
	}
	return cur
}

func mapsOf(n nv) []nv {
	switch t := n.v.(type) {
	case map[string]interface{}:
		return []nv{n}
	case []interface{}:
		var out []nv
		for i, e := range t {
			if _, ok := e.(map[string]interface{}); ok {
				out = append(out, nv{e, n.loc + "/" + strconv.Itoa(i)})
			}
		}
		return out
	}
	return nil
}

// slot is an addressed (container, k) pair; container is the map holding k.
type slot struct {
	loc       string // container loc + "/" + k
	container map[string]interface{}
}

func refAddressed(root map[string]interface{}, path []string, k string) (slots []slot, listBeforeLast, keyAbsent bool) {
	seen := map[string]bool{}
	add := func(m nv) {
		mm := m.v.(map[string]interface{})
		if _, ok := mm[k]; ok {
			l := m.loc + "/" + k
			if !seen[l] {
				seen[l] = true
				slots = append(slots, slot{l, mm})
			}
		} else {
			keyAbsent = true
		}
	}
	addIfHas := func(n nv) {
		for _, m := range mapsOf(n) {
			add(m)
		}
	}
	last := path[len(path)-1]
	parents := walkNodes([]nv{{root, ""}}, path[:len(path)-1])
	for _, p := range parents {
		if _, isList := p.v.([]interface{}); isList {
			listBeforeLast = true
		}
		for _, pm := range mapsOf(p) {
			m := pm.v.(map[string]interface{})
			if last == k {
				add(pm)
			} else if last == "*" {
				for _, kk := range sortedKeys(m) {
					if kk == k {
						add(pm)
					} else {
						addIfHas(nv{m[kk], pm.loc + "/" + kk})
					}
				}
			} else if vv, ok := m[last]; ok {
				addIfHas(nv{vv, pm.loc + "/" + last})
			}
		}
	}
	return
}

func sentinelSlots(v interface{}, loc string, sentFp string, out map[string]bool) {
	if jv.Fp(v) == sentFp {
		out[loc] = true
		return
	}
	switch t := v.(type) {
	case map[string]interface{}:
		for k, e := range t {
			sentinelSlots(e, loc+"/"+k, sentFp, out)
		}
	case []interface{}:
		for i, e := range t {
			sentinelSlots(e, loc+"/"+strconv.Itoa(i), sentFp, out)
		}
	}
}

// restore puts before's values back into the sentinel slots of after; added keys holding the sentinel are reported.
func restore(after, before interface{}, sentFp string, added *[]string, loc string) interface{} {
	if jv.Fp(after) == sentFp {
		return before
	}
	switch t := after.(type) {
	case map[string]interface{}:
		bm, ok := before.(map[string]interface{})
		if !ok {
			return after
		}
		m := map[string]interface{}{}
		for k, e := range t {
			be, has := bm[k]
			if !has {
				if jv.Fp(e) == sentFp {
					*added = append(*added, loc+"/"+k)
					continue
				}
				m[k] = e
				continue
			}
			m[k] = restore(e, be, sentFp, added, loc+"/"+k)
		}
		return m
	case []interface{}:
		bl, ok := before.([]interface{})
		if !ok || len(bl) != len(t) {
			return after
		}
		l := make([]interface{}, len(t))
		for i, e := range t {
			l[i] = restore(e, bl[i], sentFp, added, loc+"/"+strconv.Itoa(i))
		}
		return l
	}
	return after
}

func predAll(m map[string]interface{}, conds []cond) int {
	res := 1
	for _, c := range conds {
		switch evalCond(m, c) {
		case 0:
			return 0
		case -1:
			res = -1
		}
	}
	return res
}

func c10genPath(r *rand.Rand, root interface{}, k string) []string {
	var segs []string
	cur := root
	n := 1 + r.Intn(5)
	for i := 0; i < n; i++ {
		for {
			l, ok := cur.([]interface{})
			if !ok || len(l) == 0 {
				break
			}
			cur = l[r.Intn(len(l))]
		}
		mm, ok := cur.(map[string]interface{})
		name := c10keys[r.Intn(len(c10keys))]
		if ok && len(mm) > 0 && r.Intn(10) != 0 {
			ks := sortedKeys(mm)
			name = ks[r.Intn(len(ks))]
			cur = mm[name]
		} else {
			cur = nil
		}
		if r.Intn(7) == 0 {
			name = "*"
		}
		segs = append(segs, name)
		if cur == nil && r.Intn(2) == 0 {
			break
		}
	}
	if r.Intn(6) == 0 {
		segs[len(segs)-1] = k
	}
	return segs
}

func (c10) Case(c *core.Ctx) {
	r := c.R
	keys := keyAlphabet(r, c10keys)
	g := jv.GenOpt{Keys: keys, MaxFan: 3, WideProb: 60, ListInList: r.Intn(3) == 0, EmptyConts: true, Nulls: true, Scalars: c08scalar}.Fresh()
	root := jv.M{"doc": g.Value(r, 1+r.Intn(5), false)}
	boolForm := r.Intn(12) == 0
	if boolForm {
		// the typed 'key:value:bool' form: the sentinel is a bool, so the Map must not hold one
		var strip func(v interface{}) interface{}
		strip = func(v interface{}) interface{} {
			switch t := v.(type) {
			case bool:
				return "was-bool"
			case map[string]interface{}:
				for kk, e := range t {
					t[kk] = strip(e)
				}
			case []interface{}:
				for i, e := range t {
					t[i] = strip(e)
				}
			}
			return v
		}
		strip(map[string]interface{}(root))
	}
	before := jv.Copy(root).(jv.M)
	beforeFp := jv.Fp(before)
	k := keys[r.Intn(len(keys))]
	path := c10genPath(r, root, k)
	if r.Intn(5) != 0 {
		// make the two addressing forms hit often: k = the last path key, or a key of a node the path yields
		if last := path[len(path)-1]; r.Intn(2) == 0 && last != "*" {
			k = last
		} else {
			var cand []string
			for _, n := range walkNodes([]nv{{root, ""}}, path) {
				for _, m := range mapsOf(n) {
					cand = append(cand, sortedKeys(m.v.(map[string]interface{}))...)
				}
			}
			if len(cand) > 0 {
				k = cand[r.Intn(len(cand))]
			}
		}
	}
	pathStr := strings.Join(path, ".")

	// sentinel + form of the newVal argument
	var sent interface{}
	var newVal interface{}
	sep := ":"
	goTyped := false
	form := r.Intn(6)
	if boolForm {
		form = 6
	}
	if form >= 4 && (strings.TrimSpace(k) != k || k == "") {
		form = 0 // the string form of the new value does not define blanks around the key: use the map form
	}
	switch form {
	case 0, 1:
		sent = fmt.Sprintf("NEW#%d", c.Index)
		newVal = map[string]interface{}{k: sent}
		if form == 1 {
			if r.Intn(2) == 0 {
				goTyped = true
				// Go-typed content must arrive as it is (no JSON round trip in between)
				sent = map[string]interface{}{"NEW#": c.Index, "l": []interface{}{int64(7), uint8(1), "x"}, "m": mxj.Map{"n": float32(1.5)}}
			}
			newVal = mxj.Map{k: sent}
		}
	case 2:
		sent = map[string]interface{}{"NEW#": float64(c.Index)}
		newVal = map[string]interface{}{k: sent}
	case 3:
		sent = 1e9 + float64(c.Index) + 0.5
		newVal = map[string]interface{}{k: sent}
	case 4:
		if r.Intn(3) == 0 {
			sep = []string{"|", ";", "=>", "::", "§"}[r.Intn(5)]
		}
		sent = fmt.Sprintf("NEW#%d", c.Index)
		newVal = k + sep + sent.(string)
		c.Count("form:string")
	case 6:
		if r.Intn(3) == 0 {
			sep = []string{"|", ";", "=>", "::", "§"}[r.Intn(5)]
		}
		b := r.Intn(2) == 0
		sent = b
		newVal = k + sep + []string{"true", "false", "T", "F", "1", "0", "TRUE", "False"}[2*r.Intn(4)+map[bool]int{true: 0, false: 1}[b]] + sep + []string{"bool", "boolean"}[r.Intn(2)]
		c.Count("form:string")
		c.Count("form:typed-bool")
	default:
		if r.Intn(3) == 0 {
			sep = []string{"|", ";", "=>", "::", "§"}[r.Intn(5)]
		}
		f := 1e9 + float64(c.Index) + 0.25
		sent = f
		newVal = k + sep + strconv.FormatFloat(f, 'f', -1, 64) + sep + []string{"num", "numeric", "float", "int"}[r.Intn(4)]
		c.Count("form:string")
		c.Count("form:typed-num")
	}
	if form < 4 && r.Intn(6) == 0 {
		sep = []string{"|", "=>", "::", "§"}[r.Intn(4)] // map-form new value, sub-keys written with another separator
	}
	sentFp := jv.Fp(sent)

	slots, listBeforeLast, keyAbsent := refAddressed(before, path, k)
	if listBeforeLast {
		c.Count("shape:list-before-last-key")
	}
	if keyAbsent {
		c.Count("shape:key-absent-at-node")
	}
	if path[len(path)-1] == "*" {
		c.Count("shape:wildcard-last")
	}
	var conds []cond
	var specs []string
	if r.Intn(3) == 0 {
		var sample []interface{}
		for _, s := range slots {
			sample = append(sample, s.container)
			if l, ok := s.container[k].([]interface{}); ok {
				sample = append(sample, l...)
			}
		}
		conds, specs = genConds(r, sep, sample)
	}
	if sep != ":" {
		mxj.SetFieldSeparator(sep)
		defer mxj.SetFieldSeparator()
	}
	if r.Intn(4) == 0 {
		// ambient decoder options that UpdateValuesForPath does not document as affecting it
		mxj.CoerceKeysToLower(r.Intn(2) == 0)
		mxj.CoerceKeysToSnakeCase(r.Intn(2) == 0)
		mxj.SetAttrPrefix([]string{"@", "", "-"}[r.Intn(3)])
		defer ResetDefaults()
		c.Count("ambient:decoder-options")
	}
	// (I6) one list object of the Map stored a second time, under a top-level key the path cannot address: that
	// entry is "another entry of the Map". Member maps may legitimately be updated in place (they are addressed
	// nodes), so the entry is compared shallowly: same members (same objects, equal scalars) in the same order.
	const aliasKey = "zz-alias\x00list"
	var aliasList, aliasSnap []interface{}
	if path[0] != "*" && r.Intn(3) == 0 {
		var lists [][]interface{}
		var walk func(v interface{})
		walk = func(v interface{}) {
			switch t := v.(type) {
			case map[string]interface{}:
				for _, kk := range sortedKeys(t) {
					walk(t[kk])
				}
			case []interface{}:
				if len(t) > 0 {
					lists = append(lists, t)
				}
				for _, e := range t {
					walk(e)
				}
			}
		}
		walk(map[string]interface{}(root))
		// half of the time: the list-valued target of an addressed slot (slots point into 'before'; find the twin in root)
		var targets [][]interface{}
		twin := map[uintptr]map[string]interface{}{}
		var pair func(b, a interface{})
		pair = func(b, a interface{}) {
			switch bt := b.(type) {
			case map[string]interface{}:
				at, ok := a.(map[string]interface{})
				if !ok {
					return
				}
				twin[reflect.ValueOf(bt).Pointer()] = at
				for kk, bv := range bt {
					pair(bv, at[kk])
				}
			case []interface{}:
				at, ok := a.([]interface{})
				if !ok || len(at) != len(bt) {
					return
				}
				for i := range bt {
					pair(bt[i], at[i])
				}
			}
		}
		pair(map[string]interface{}(before), map[string]interface{}(root))
		for _, sl := range slots {
			if tm := twin[reflect.ValueOf(sl.container).Pointer()]; tm != nil {
				if l, ok := tm[k].([]interface{}); ok && len(l) > 0 {
					targets = append(targets, l)
				}
			}
		}
		if len(targets) > 0 && r.Intn(2) == 0 {
			lists = targets
			c.Count("alias:list-valued-target")
		}
		if len(lists) > 0 {
			aliasList = lists[r.Intn(len(lists))]
			aliasSnap = append([]interface{}(nil), aliasList...)
			root[aliasKey] = aliasList
			c.Count("alias:list-stored-twice")
		}
	}
	c.Eval()
	failedCalls(c, 8)
	if r.Intn(8) == 0 {
		// a new value that is not of the documented forms: whatever is answered, an error or a count of zero
		// must leave the Map untouched
		bad := []interface{}{
			map[string]interface{}{k: "X#", k + "2": "Y#"}, map[string]interface{}{}, mxj.Map{}, mxj.Map{k: 1, "z": 2}, k, k + sep + "v" + sep + "num" + sep + "x",
			k + sep + "abc" + sep + "num", k + sep + "maybe" + sep + "bool", k + sep + "1" + sep + "unknown", k + sep + "" + sep + "boolean", 42, nil, []interface{}{k, "v"}, []string{k + sep + "v"},
		}[r.Intn(14)]
		n0, e0 := mxj.Map(root).UpdateValuesForPath(bad, pathStr, specs...)
		c.Count("malformed-newval")
		if e0 != nil {
			c.Count("malformed-newval:error")
		}
		if (n0 == 0 || e0 != nil) && jv.Fp(root) != jv.Fp(withAlias(before, aliasKey, aliasList)) {
			c.Violate("c10-malformed-newval-modified", "UpdateValuesForPath changed the Map although it reported an error or a count of zero", core.D{
				"before": jv.Show(before), "after": jv.Show(root), "newVal": fmt.Sprintf("%#v", bad), "path": pathStr, "subkeys": fmt.Sprint(specs), "count": n0, "err": fmt.Sprint(e0)})
			return
		}
		if n0 != 0 && e0 == nil {
			return // accepted as a new value after all (unspecified): this Map is no longer the generated one
		}
	}
	cnt, err := mxj.Map(root).UpdateValuesForPath(newVal, pathStr, specs...)
	if aliasList != nil {
		now, isList := root[aliasKey].([]interface{})
		same := isList && len(now) == len(aliasSnap) && len(aliasList) == len(aliasSnap)
		for i := 0; same && i < len(aliasSnap); i++ {
			same = shallowSame(now[i], aliasSnap[i]) && shallowSame(aliasList[i], aliasSnap[i])
		}
		delete(root, aliasKey)
		if !same {
			c.Violate("c10-aliased-list-entry", "a list stored under a second, unaddressed key was modified by the update (members replaced in place)", core.D{
				"before": jv.Show(before), "after": jv.Show(root), "newVal": fmt.Sprintf("%#v", newVal), "path": pathStr, "subkeys": fmt.Sprint(specs),
				"alias_entry_before": jv.Show(aliasSnap), "alias_entry_after": jv.Show(now), "count": cnt, "err": fmt.Sprint(err)})
			return
		}
	}
	got := map[string]bool{}
	sentinelSlots(root, "", sentFp, got)
	det := func() core.D {
		return core.D{"before": jv.Show(before), "after": jv.Show(root), "newVal": fmt.Sprintf("%#v", newVal), "path": pathStr, "subkeys": fmt.Sprint(specs), "count": cnt, "err": fmt.Sprint(err),
			"sentinel_slots": fmt.Sprint(sortedBoolKeys(got)), "addressed_slots": fmt.Sprint(slotLocs(slots))}
	}
	if err != nil {
		c.Violate("c10-error", "UpdateValuesForPath rejected well-formed arguments", det())
		return
	}
	if len(slots) > 0 {
		c.Count("addressed>0")
		c.NonTrivial(beforeFp, k, pathStr, fmt.Sprint(specs))
	}
	if len(slots) > 1 {
		c.Count("addressed>1")
	}
	if c.WantSample() && len(slots) > 1 && len(beforeFp) < 300 {
		c.Sample(core.D{"before": beforeFp, "newVal": fmt.Sprintf("%v", newVal), "path": pathStr, "subkeys": specs, "addressed": slotLocs(slots)})
	}

	// (I1) frame
	var added []string
	rest := restore(root, before, sentFp, &added, "")
	if len(added) > 0 {
		c.Violate("c10-key-added", "UpdateValuesForPath added an entry that did not exist", det())
		return
	}
	if jv.Fp(rest) != beforeFp {
		d := det()
		d["first_difference(before vs restored after)"] = jv.Diff(before, rest)
		c.Violate("c10-frame", "an entry other than the addressed ones was changed", d)
		return
	}

	// (I2)/(I3) soundness and completeness
	may := map[string]bool{}
	must := map[string]bool{}
	okSets := true
	why := ""
	for _, s := range slots {
		val := s.container[k]
		lst, isList := val.([]interface{})
		pc := 1
		if len(conds) > 0 {
			pc = predAll(s.container, conds)
		}
		if isList {
			c.Count("shape:list-valued-target")
		}
		if !isList || len(conds) == 0 {
			if pc != 0 {
				may[s.loc] = true
			}
			if pc == 1 {
				must[s.loc] = true
			}
			continue
		}
		// list-valued target with sub-keys: the docs allow the condition to be read on the
		// parent (whole list replaced) or on the members (matching member maps replaced)
		whole := got[s.loc]
		memberGot := map[string]bool{}
		for l := range got {
			if strings.HasPrefix(l, s.loc+"/") {
				memberGot[l] = true
			}
		}
		okA := (pc == -1 || whole == (pc == 1)) && len(memberGot) == 0
		okB := !whole
		for i, e := range lst {
			ml := s.loc + "/" + strconv.Itoa(i)
			pm := 0
			if em, isMap := e.(map[string]interface{}); isMap {
				pm = predAll(em, conds)
			}
			if (memberGot[ml] && pm == 0) || (!memberGot[ml] && pm == 1) {
				okB = false
			}
		}
		if !okA && !okB {
			okSets, why = false, "did not replace / replaced wrongly a list-valued target under sub-keys (neither parent nor member reading): "+s.loc
		}
		if whole {
			may[s.loc] = true
		}
		for l := range memberGot {
			may[l] = true
		}
	}
	for l := range got {
		if !may[l] {
			okSets, why = false, "replaced a slot that is not addressed or fails the sub-keys: "+l
		}
	}
	for l := range must {
		if !got[l] {
			okSets, why = false, "did not replace an addressed slot that satisfies the sub-keys: "+l
		}
	}
	if !okSets {
		d := det()
		d["why"] = why
		class := "c10-slots"
		if strings.HasPrefix(why, "replaced") {
			class = "c10-slots-extra"
		} else if strings.HasPrefix(why, "did not") {
			class = "c10-slots-missing"
		}
		c.Violate(class, "the set of replaced values is not the addressed set", d)
		return
	}
	if len(conds) > 0 && len(got) > 0 {
		c.Count("subkeys:some-replaced")
	}
	// (I4) count
	if cnt != len(got) {
		c.Violate("c10-count", "returned count differs from the number of values replaced", det())
		return
	}
	if cnt == 0 && jv.Fp(root) != beforeFp {
		c.Violate("c10-zero-count-modified", "count 0 but the Map changed", det())
	}
	// (I5)
	if path[len(path)-1] == k && len(specs) == 0 {
		vs, e := mxj.Map(root).ValuesForPath(pathStr)
		ok := e == nil && len(vs) == cnt
		for _, v := range vs {
			if jv.Fp(v) != sentFp {
				ok = false
			}
		}
		if !ok {
			d := det()
			d["valuesforpath_after"] = jv.Show(vs)
			c.Violate("c10-readback", "ValuesForPath(path) afterwards is not count copies of the new value", d)
		}
	}
	// wrapper: j2x returns the encoding of the result
	if r.Intn(6) == 0 && sep == ":" && !goTyped {
		if jb, e := json.Marshal(before); e == nil && jsonSafeKeys(before) {
			nvw := newVal
			if mv, ok := nvw.(mxj.Map); ok {
				nvw = map[string]interface{}(mv)
			}
			out, e2 := j2x.JsonUpdateValsForPath(jb, nvw, pathStr, specs...)
			var dec interface{}
			if e2 == nil {
				e2 = json.Unmarshal(out, &dec)
			}
			if e2 != nil || !jv.Equal(dec, map[string]interface{}(root)) {
				c.Violate("c10-j2x", "j2x.JsonUpdateValsForPath is not the encoding of the updated Map", core.D{"json": string(jb), "out": string(out), "expected": jv.Show(root), "err": fmt.Sprint(e2)})
			}
			c.Count("api:j2x.JsonUpdateValsForPath")
		}
	}
}

// withAlias: m plus the alias entry of invariant I6 (when there is one), for whole-Map fingerprints taken while it is in.
func withAlias(m jv.M, key string, l []interface{}) jv.M {
	if l == nil {
		return m
	}
	o := jv.M{}
	for k, v := range m {
		o[k] = v
	}
	o[key] = jv.Copy(l)
	return o
}

// shallowSame: the same member as before - the same map or list object, or an equal scalar.
func shallowSame(a, b interface{}) bool {
	switch x := a.(type) {
	case map[string]interface{}:
		y, ok := b.(map[string]interface{})
		return ok && reflect.ValueOf(x).Pointer() == reflect.ValueOf(y).Pointer()
	case mxj.Map:
		y, ok := b.(mxj.Map)
		return ok && reflect.ValueOf(x).Pointer() == reflect.ValueOf(y).Pointer()
	case []interface{}:
		y, ok := b.([]interface{})
		return ok && len(x) == len(y) && (len(x) == 0 || &x[0] == &y[0])
	}
	switch b.(type) {
	case map[string]interface{}, mxj.Map, []interface{}:
		return false
	}
	return jv.Fp(a) == jv.Fp(b)
}

func slotLocs(s []slot) []string {
	o := make([]string, len(s))
	for i := range s {
		o[i] = s[i].loc
	}
	return o
}

var _ = rand.Int
