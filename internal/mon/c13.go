package mon

import (
	"bufio"
	"bytes"
	"encoding/json"
	"errors"
	"fmt"
	"io"
	"math/rand"
	"os"
	"path/filepath"
	"strings"

	mxj "github.com/clbanning/mxj/v2"
	x2jw "github.com/clbanning/mxj/v2/x2j-wrapper"

	"verif/internal/core"
	"verif/internal/jv"
	"verif/internal/xt"
)

// C13 - stream decoding is independent of how the reader delivers bytes.
// Events are recorded at the boundary (every Read on the hostile reader, every
// API return, every handler invocation); an offline checker decides over the log.
type c13 struct{}

func init() { register(c13{}) }

func (c13) Meta() core.Meta {
	return core.Meta{
		ID: "C13", Level: "fault_enumeration",
		Rule:        "case i = f(seed,i): a stream of 1..5 generated documents (XML through the C01 generator, or JSON objects whose keys/strings contain braces, quotes, backslashes, trailing escaped backslashes; compact or indented) with arbitrary inter-document whitespace, and one reader API family (XML / XML-Raw / Seq / Seq-Raw / JSON / JSON-Raw readers in a loop, the four bulk handlers incl. stop-after-k, x2j-wrapper ToMap loop and XmlMsgsFromReader, and bufio/bytes.Buffer sources). For that stream the single-fault delivery sweep is enumerated completely: for every byte position p one schedule with 1..7 consecutive (0,nil) reads before byte p, x both EOF modes (last byte together with io.EOF / separate (0,io.EOF)), plus the fault-free baselines and three long stalls (90..400 consecutive empty reads at the first, last and a random byte); thorough adds random multi-fault schedules and multi-byte chunking. Offline checker over the recorded log: Maps in order == direct decode of each document then io.EOF; reader offset at each return within [doc end, next doc start] (no over-read); Raw == bytes consumed since the previous return; handlers called exactly once per document in order and never after returning false; number of Read calls <= bytes + injected empty reads + 2*(documents+1) + 4. JSON streams of the plain sources also carry objects without members as optional deliveries (every document after one must still arrive). Non-trivial: the schedule injects a fault or the stream has >=2 documents; distinct by hash(stream, api, schedule).",
		Assumptions: []string{"the io.Reader contract: (0,nil) and (n>0,io.EOF) are legal", "expected Maps are the library's own direct decode of each document's bytes (the property is stated as that equivalence)", "with io.ByteReader sources (bufio, bytes.Buffer) over-reading of the underlying reader is the caller's choice and is not asserted"},
		Anchors:     []string{"NewMapXmlReader", "NewMapXmlReaderRaw", "NewMapXmlSeqReader", "NewMapXmlSeqReaderRaw", "NewMapJsonReader", "NewMapJsonReaderRaw", "getJson", "NewMapsFromXmlFile", "NewMapsFromXmlFileRaw", "NewMapsFromJsonFile", "HandleXmlReader", "HandleXmlReaderRaw", "HandleJsonReader", "HandleJsonReaderRaw", "*teeReader.ReadByte", "*byteReader.ReadByte", "x2j-wrapper.XmlMsgsFromReader", "x2j-wrapper.ToMap"},
		Floors:      map[string]int64{"schedule:eof-with-data": 5000, "schedule:empty-read-injected": 10000, "stream:multi-doc": 300, "json:trailing-escaped-backslash": 20, "json:brace-in-string": 50, "handler:stopped-early": 50, "returns-checked": 30000},
		Exhaustive:  false,
	}
}

func (c13) Cases(tier string, race bool) int {
	if race {
		return 0
	}
	if tier == "thorough" {
		return 24000
	}
	return 3000
}

// ---------- hostile reader with event log ----------

type rdEvent struct {
	Call, LenP, N int
	Err           string
	Off           int
}

type hostileReader struct {
	data    []byte
	pos     int
	zeroAt  map[int]int // position -> number of (0,nil) reads before delivering that byte
	eofWith bool        // last byte delivered together with io.EOF
	caps    []int       // chunk caps for multi-byte reads (cycled)
	reads   int
	budget  int
	over    bool
	log     []rdEvent
	keepLog bool
}

func (s *hostileReader) Read(p []byte) (n int, err error) {
	s.reads++
	defer func() {
		if s.keepLog {
			e := ""
			if err != nil {
				e = err.Error()
			}
			s.log = append(s.log, rdEvent{s.reads, len(p), n, e, s.pos})
		}
	}()
	if s.reads > s.budget {
		s.over = true
		return 0, errors.New("hostile reader: read budget exceeded (no progress)")
	}
	if len(p) == 0 {
		return 0, nil
	}
	if s.pos >= len(s.data) {
		return 0, io.EOF
	}
	if s.zeroAt[s.pos] > 0 {
		s.zeroAt[s.pos]--
		return 0, nil
	}
	n = len(p)
	if len(s.caps) > 0 {
		if cp := s.caps[s.reads%len(s.caps)]; cp < n {
			n = cp
		}
	}
	// never deliver across a position that still has empty reads pending
	for q := s.pos + 1; q < s.pos+n && q < len(s.data); q++ {
		if s.zeroAt[q] > 0 {
			n = q - s.pos
			break
		}
	}
	if n > len(s.data)-s.pos {
		n = len(s.data) - s.pos
	}
	copy(p, s.data[s.pos:s.pos+n])
	s.pos += n
	if s.pos >= len(s.data) && s.eofWith {
		return n, io.EOF
	}
	return n, nil
}

// ---------- stream generation ----------

type docSpan struct {
	text       string
	start, end int
}

var c13seps = []string{"", "", " ", "\n", " \n\t ", "\r\n", "\t"}

var c13xmlgen = xt.GenCfg{Names: []string{"a", "b", "c", "x-y"}, Prefixes: []string{"", "", "ns"}, Texts: []string{"", "t", "x &amp; y", "<&>", " pad ", "1", "é", "a]]>b", "{", "}", "\ufeffq", "z\ufeff"}, MaxKids: 3, MaxAttrs: 2}

var c13jsonAtoms = []string{"{", "}", `"`, `\`, `\\`, "[", "]", ":", ",", "a", " ", "é", "\n", `\"`, "}{", `A`, "/"}

func c13jsonStr(r *rand.Rand) string {
	var b strings.Builder
	for i, n := 0, r.Intn(5); i < n; i++ {
		if r.Intn(16) == 0 {
			b.WriteString(autoString(r, "a")) // a literal of the tree under test
			continue
		}
		b.WriteString(c13jsonAtoms[r.Intn(len(c13jsonAtoms))])
	}
	if r.Intn(6) == 0 {
		b.WriteString(`\`) // trailing backslash -> encoded as a trailing escaped backslash
	}
	return b.String()
}

func c13jsonVal(r *rand.Rand, d int) interface{} {
	switch x := r.Intn(7); {
	case d <= 0 || x < 3:
		if r.Intn(4) == 0 {
			return float64(r.Intn(100))
		}
		return c13jsonStr(r)
	case x < 5:
		m := map[string]interface{}{}
		for i, n := 0, r.Intn(3); i < n; i++ {
			m[c13jsonStr(r)] = c13jsonVal(r, d-1)
		}
		return m
	default:
		l := []interface{}{}
		for i, n := 0, r.Intn(3); i < n; i++ {
			l = append(l, c13jsonVal(r, d-1))
		}
		return l
	}
}

// isEmptyObj: the document is an object without members.
func isEmptyObj(text string) bool { return stripWS(text) == "{}" }

func c13buildStream(r *rand.Rand, jsonKind, seqKind bool, maxDocs, maxLen int, c *core.Ctx, emptyObjs ...bool) (string, []docSpan) {
	for {
		n := 1 + r.Intn(maxDocs)
		var b strings.Builder
		var ds []docSpan
		b.WriteString(c13seps[r.Intn(len(c13seps))])
		for i := 0; i < n; i++ {
			var t string
			if jsonKind {
				m := map[string]interface{}{}
				for j, k := 0, 1+r.Intn(2); j < k; j++ {
					m[c13jsonStr(r)] = c13jsonVal(r, 2)
				}
				jb, _ := json.Marshal(m)
				if len(emptyObjs) == 1 && emptyObjs[0] && r.Intn(3) == 0 {
					jb = []byte([]string{"{}", "{ }", "{\n}", "{\t \n }"}[r.Intn(4)])
				}
				if r.Intn(3) == 0 {
					var ib bytes.Buffer
					json.Indent(&ib, jb, "", " ")
					jb = ib.Bytes()
				}
				t = string(jb)
			} else {
				root := c13xmlgen.Gen(r, r.Intn(3))
				t = string(xt.Render(r, root, xt.Style{}))
				if !seqKind && r.Intn(5) == 0 {
					t = `<?xml version="1.0"?>` + t
				}
			}
			ds = append(ds, docSpan{t, b.Len(), b.Len() + len(t)})
			b.WriteString(t)
			b.WriteString(c13seps[r.Intn(len(c13seps))])
		}
		if b.Len() <= maxLen {
			return b.String(), ds
		}
	}
}

// stripWS removes whitespace outside JSON strings.
func stripWS(s string) string {
	var b strings.Builder
	inQ, esc := false, false
	for i := 0; i < len(s); i++ {
		ch := s[i]
		if inQ {
			b.WriteByte(ch)
			if esc {
				esc = false
			} else if ch == '\\' {
				esc = true
			} else if ch == '"' {
				inQ = false
			}
			continue
		}
		if ch == ' ' || ch == '\n' || ch == '\t' || ch == '\r' {
			continue
		}
		if ch == '"' {
			inQ = true
		}
		b.WriteByte(ch)
	}
	return b.String()
}

// ---------- API families ----------

type delivery struct {
	fp     string
	raw    []byte
	hasRaw bool
	off    int // hostile reader offset when the value was handed over
	reads  int
}

type runResult struct {
	deliveries  []delivery
	finalErr    error
	errHandlers int
	stoppedAt   int // handler returned false at this delivery index (-1: never)
	calledAfter bool
}

type c13api struct {
	name    string
	json    bool
	seq     bool
	raw     bool
	handler bool
	byteSrc string // "", "bufio", "bytes.Buffer"
	run     func(src io.Reader, hr *hostileReader, stopAt int) runResult
}

func loopAPI(call func(io.Reader) (interface{}, []byte, bool, error), maxCalls int) func(io.Reader, *hostileReader, int) runResult {
	return func(src io.Reader, hr *hostileReader, stopAt int) runResult {
		res := runResult{stoppedAt: -1}
		for i := 0; i < maxCalls; i++ {
			m, raw, hasRaw, err := call(src)
			if hasRaw && c13ctx != nil {
				keep(c13ctx, "raw bytes of a reader call", raw) // the slice itself, as handed out
			}
			if err != nil {
				res.finalErr = err
				if l := mapLen(m); l != 0 && err == io.EOF {
					res.deliveries = append(res.deliveries, delivery{fp: "non-empty value together with io.EOF: " + jv.Fp(m), off: hr.pos, reads: hr.reads})
				}
				if hasRaw && err == io.EOF {
					// the bytes consumed by the final call (trailing whitespace) are still "raw"
					res.deliveries = append(res.deliveries, delivery{fp: "<EOF>", raw: append([]byte{}, raw...), hasRaw: true, off: hr.pos, reads: hr.reads})
				}
				return res
			}
			res.deliveries = append(res.deliveries, delivery{fp: jv.Fp(m), raw: append([]byte{}, raw...), hasRaw: hasRaw, off: hr.pos, reads: hr.reads})
		}
		res.finalErr = errors.New("no io.EOF after the last document")
		return res
	}
}

func mapLen(m interface{}) int {
	switch t := m.(type) {
	case mxj.Map:
		return len(t)
	case mxj.MapSeq:
		return len(t)
	case map[string]interface{}:
		return len(t)
	}
	return 0
}

func c13apis() []c13api {
	const mc = 12
	apis := []c13api{
		{name: "NewMapXmlReader", run: loopAPI(func(r io.Reader) (interface{}, []byte, bool, error) {
			m, e := mxj.NewMapXmlReader(r)
			return m, nil, false, e
		}, mc)},
		{name: "NewMapXmlReaderRaw", raw: true, run: loopAPI(func(r io.Reader) (interface{}, []byte, bool, error) {
			m, b, e := mxj.NewMapXmlReaderRaw(r)
			return m, b, true, e
		}, mc)},
		{name: "NewMapXmlSeqReader", seq: true, run: loopAPI(func(r io.Reader) (interface{}, []byte, bool, error) {
			m, e := mxj.NewMapXmlSeqReader(r)
			return m, nil, false, e
		}, mc)},
		{name: "NewMapXmlSeqReaderRaw", seq: true, raw: true, run: loopAPI(func(r io.Reader) (interface{}, []byte, bool, error) {
			m, b, e := mxj.NewMapXmlSeqReaderRaw(r)
			return m, b, true, e
		}, mc)},
		{name: "NewMapJsonReader", json: true, run: loopAPI(func(r io.Reader) (interface{}, []byte, bool, error) {
			m, e := mxj.NewMapJsonReader(r)
			return m, nil, false, e
		}, mc)},
		{name: "NewMapJsonReaderRaw", json: true, raw: true, run: loopAPI(func(r io.Reader) (interface{}, []byte, bool, error) {
			m, b, e := mxj.NewMapJsonReaderRaw(r)
			return m, b, true, e
		}, mc)},
		{name: "x2j-wrapper.ToMap", run: loopAPI(func(r io.Reader) (interface{}, []byte, bool, error) { m, e := x2jw.ToMap(r); return m, nil, false, e }, mc)},
	}
	mk := func(name string, isJSON, raw bool, f func(src io.Reader, mh func(mxj.Map, []byte) bool, eh func(error, []byte) bool) error) c13api {
		return c13api{name: name, json: isJSON, raw: raw, handler: true, run: func(src io.Reader, hr *hostileReader, stopAt int) runResult {
			res := runResult{stoppedAt: -1}
			stopped := false
			res.finalErr = f(src, func(m mxj.Map, rawb []byte) bool {
				if stopped {
					res.calledAfter = true
				}
				if raw && c13ctx != nil {
					keep(c13ctx, name+" raw bytes handed to the handler", rawb)
				}
				res.deliveries = append(res.deliveries, delivery{fp: jv.Fp(m), raw: append([]byte{}, rawb...), hasRaw: raw, off: hr.pos, reads: hr.reads})
				if stopAt >= 0 && len(res.deliveries)-1 == stopAt {
					stopped = true
					res.stoppedAt = stopAt
					return false
				}
				return true
			}, func(e error, rawb []byte) bool {
				res.errHandlers++
				return false
			})
			return res
		}}
	}
	apis = append(apis,
		mk("HandleXmlReader", false, false, func(src io.Reader, mh func(mxj.Map, []byte) bool, eh func(error, []byte) bool) error {
			return mxj.HandleXmlReader(src, func(m mxj.Map) bool { return mh(m, nil) }, func(e error) bool { return eh(e, nil) })
		}),
		mk("HandleXmlReaderRaw", false, true, func(src io.Reader, mh func(mxj.Map, []byte) bool, eh func(error, []byte) bool) error {
			return mxj.HandleXmlReaderRaw(src, mh, eh)
		}),
		mk("HandleJsonReader", true, false, func(src io.Reader, mh func(mxj.Map, []byte) bool, eh func(error, []byte) bool) error {
			return mxj.HandleJsonReader(src, func(m mxj.Map) bool { return mh(m, nil) }, func(e error) bool { return eh(e, nil) })
		}),
		mk("HandleJsonReaderRaw", true, true, func(src io.Reader, mh func(mxj.Map, []byte) bool, eh func(error, []byte) bool) error {
			return mxj.HandleJsonReaderRaw(src, mh, eh)
		}),
		mk("x2j-wrapper.XmlMsgsFromReader", false, false, func(src io.Reader, mh func(mxj.Map, []byte) bool, eh func(error, []byte) bool) error {
			return x2jw.XmlMsgsFromReader(src, func(m map[string]interface{}) bool { return mh(m, nil) }, func(e error) bool { return eh(e, nil) })
		}),
	)
	// io.ByteReader sources
	for _, base := range []int{0, 1, 2, 3} {
		a := apis[base]
		for _, bs := range []string{"bufio", "bytes.Buffer"} {
			b := a
			b.name = a.name + "/" + bs
			b.byteSrc = bs
			apis = append(apis, b)
		}
	}
	return apis
}

var c13apiList = c13apis()

// c13ctx: the context of the running case (for the retained-result monitor inside API adaptors).
var c13ctx *core.Ctx

// ---------- one monitored run + offline check ----------

type c13sched struct {
	zeroAt  map[int]int
	eofWith bool
	caps    []int
	stopAt  int
}

func (s c13sched) String() string {
	return fmt.Sprintf("empty-reads-before-byte=%v eof-with-last-byte=%v chunk-caps=%v handler-stops-at=%d", s.zeroAt, s.eofWith, s.caps, s.stopAt)
}

func c13run(c *core.Ctx, api c13api, stream string, ds []docSpan, wantFp []string, sc c13sched, keepLog bool) {
	nz := 0
	za := map[int]int{}
	for k, v := range sc.zeroAt {
		nz += v
		za[k] = v
	}
	hr := &hostileReader{data: []byte(stream), zeroAt: za, eofWith: sc.eofWith, caps: sc.caps, budget: len(stream) + nz + 2*(len(ds)+1) + 4, keepLog: keepLog}
	if api.handler {
		hr.budget += 2
	}
	var src io.Reader = hr
	switch api.byteSrc {
	case "bufio":
		src = bufio.NewReaderSize(hr, 16)
	case "bytes.Buffer":
		bb := &bytes.Buffer{}
		hr.budget += len(stream) + nz + 8 // the fill consumes reads too
		if _, err := bb.ReadFrom(&plainReader{hr}); err != nil {
			c.Harness("bytes.Buffer fill failed: " + err.Error())
			return
		}
		src = bb
	}
	c.Eval()
	if nz > 0 {
		c.Count("schedule:empty-read-injected")
	}
	if sc.eofWith {
		c.Count("schedule:eof-with-data")
	}
	if nz > 0 || sc.eofWith || len(ds) >= 2 {
		c.NonTrivial(stream, api.name, sc.String())
	}
	c13ctx = c
	res := api.run(src, hr, sc.stopAt)
	verifyKept(c, "c13-retained-raw-changed")

	// ---- offline checker over what was recorded ----
	viol := func(kind, msg string, extra core.D) {
		d := core.D{"api": api.name, "stream": stream, "schedule": sc.String(), "documents": len(ds)}
		for k, v := range extra {
			d[k] = v
		}
		if keepLog {
			d["read_log"] = fmt.Sprint(hr.log)
		}
		c.Violate("c13-"+kind, api.name+": "+msg, d)
	}
	if hr.over {
		viol("no-progress", "more Read calls than bytes + injected empty reads + documents allow (bounded progress)", core.D{"reads": hr.reads, "budget": hr.budget})
		return
	}
	expected := len(ds)
	if sc.stopAt >= 0 && sc.stopAt < len(ds) {
		expected = sc.stopAt + 1
		c.Count("handler:stopped-early")
	}
	// trailing <EOF> pseudo-delivery (raw of the final call)
	var eofRaw *delivery
	dl := res.deliveries
	if n := len(dl); n > 0 && dl[n-1].fp == "<EOF>" {
		eofRaw = &dl[n-1]
		dl = dl[:n-1]
	}
	if res.errHandlers > 0 {
		viol("error-handler-called", "the error handler was invoked on a well-formed stream", nil)
		return
	}
	if res.calledAfter {
		viol("handler-after-false", "the map handler was invoked again after it had returned false", nil)
		return
	}
	// optional deliveries (documents that are objects without members): align the deliveries with the documents
	// first; the documents that were not delivered are cut out of ds / wantFp / the stream positions below
	if api.json && api.byteSrc == "" && sc.stopAt < 0 {
		var ds2 []docSpan
		var want2 []string
		skipped := [][2]int{}
		j := 0
		for k := range ds {
			if isEmptyObj(ds[k].text) && (j >= len(dl) || dl[j].fp != wantFp[k]) {
				skipped = append(skipped, [2]int{ds[k].start, ds[k].end})
				continue
			}
			ds2 = append(ds2, ds[k])
			want2 = append(want2, wantFp[k])
			j++
		}
		if len(skipped) > 0 {
			c.Count("stream:empty-object-not-delivered")
			b := []byte(stream)
			for _, sp := range skipped {
				for i := sp[0]; i < sp[1]; i++ {
					b[i] = ' ' // for the Raw comparison: the skipped document's bytes belong to no delivery
				}
			}
			stream, ds, wantFp, expected = string(b), ds2, want2, len(ds2)
		}
	}
	for k := 0; k < len(dl) && k < expected; k++ {
		if dl[k].fp != wantFp[k] {
			viol("map", fmt.Sprintf("document #%d decoded from the reader differs from decoding its bytes directly", k), core.D{"doc": ds[k].text, "observed": dl[k].fp, "expected": wantFp[k]})
			return
		}
	}
	if len(dl) < expected {
		viol("missing-document", fmt.Sprintf("only %d of %d documents were delivered (then: %v)", len(dl), expected, res.finalErr), core.D{"err": fmt.Sprint(res.finalErr)})
		return
	}
	if len(dl) > expected {
		viol("extra-document", fmt.Sprintf("%d values delivered for %d documents", len(dl), expected), core.D{"extra": dl[expected].fp})
		return
	}
	if api.handler {
		if res.finalErr != nil {
			viol("final-error", "the bulk handler returned an error on a well-formed stream", core.D{"err": res.finalErr.Error()})
			return
		}
	} else if res.finalErr != io.EOF {
		viol("final-eof", "the reader did not report io.EOF after the last document", core.D{"err": fmt.Sprint(res.finalErr)})
		return
	}
	prevOff, rawCat := 0, 0
	for k := range dl {
		c.Count("returns-checked")
		next := len(stream)
		if k+1 < len(ds) {
			next = ds[k+1].start
		}
		if api.byteSrc == "" {
			if dl[k].off < ds[k].end || dl[k].off > next {
				viol("overread", fmt.Sprintf("reader offset %d after document #%d is outside [document end %d, next document start %d]", dl[k].off, k, ds[k].end, next), nil)
				return
			}
		}
		if dl[k].hasRaw {
			var consumed string
			if api.byteSrc == "" {
				consumed = stream[prevOff:dl[k].off]
			} else {
				// ByteReader source: raw bytes must continue the stream where the previous raw ended and contain the document
				end := rawCat + len(dl[k].raw)
				if end > len(stream) {
					end = len(stream)
				}
				consumed = stream[rawCat:end]
			}
			if string(dl[k].raw) != consumed || !strings.Contains(string(dl[k].raw), ds[k].text) {
				if api.json && api.byteSrc == "" && string(dl[k].raw) == stripWS(consumed) {
					c.Violate("c13-json-raw-compacted", api.name+": Raw is the compacted document, not the bytes consumed", core.D{"api": api.name, "raw": string(dl[k].raw), "consumed": consumed})
				} else {
					viol("raw", fmt.Sprintf("Raw of document #%d is not the bytes consumed", k), core.D{"raw": string(dl[k].raw), "consumed": consumed})
					return
				}
			}
			rawCat += len(dl[k].raw)
		}
		prevOff = dl[k].off
	}
	if eofRaw != nil && api.byteSrc == "" && !api.json {
		if string(eofRaw.raw) != stream[prevOff:eofRaw.off] {
			viol("raw", "Raw of the final (io.EOF) call is not the bytes consumed", core.D{"raw": string(eofRaw.raw), "consumed": stream[prevOff:eofRaw.off]})
		}
	}
}

func (c13) Case(c *core.Ctx) {
	r := c.R
	api := c13apiList[c.Index%len(c13apiList)]
	maxLen, maxDocs := 120, 4
	if c.Thorough() && r.Intn(3) == 0 {
		maxLen, maxDocs = 400, 5
	}
	// an object without members is a document too; the bulk handlers do not hand an empty Map to the map handler
	// (they take it for "nothing there yet"), so such a document is an OPTIONAL delivery - but every document after
	// it must still arrive. Only for the plain sources (the Raw bookkeeping of the ByteReader sources is positional).
	withEmpty := api.json && api.byteSrc == "" && r.Intn(4) == 0
	stream, ds := c13buildStream(r, api.json, api.seq, maxDocs, maxLen, c, withEmpty)
	hasEmpty := false
	for _, d := range ds {
		if withEmpty && isEmptyObj(d.text) {
			hasEmpty = true
		}
	}
	if hasEmpty {
		c.Count("stream:empty-object-document")
	}
	deep := false
	if api.json && r.Intn(20) == 0 {
		// objects nested to depths around the limits of a small depth counter, followed by an ordinary document
		d := []int{126, 127, 128, 129, 130, 200, 254, 255, 256, 257, 300}[r.Intn(11)]
		t := strings.Repeat(`{"a":`, d) + `"}"` + strings.Repeat("}", d)
		t2 := `{"next":[1,{"b":"{"}]}`
		stream = " " + t + "\n" + t2
		ds = []docSpan{{t, 1, 1 + len(t)}, {t2, 2 + len(t), 2 + len(t) + len(t2)}}
		deep = true
		c.Count("stream:deeply-nested-json")
	}
	if len(ds) >= 2 {
		c.Count("stream:multi-doc")
	}
	if api.json {
		if strings.Contains(stream, `\\"`) {
			c.Count("json:trailing-escaped-backslash")
		}
		if strings.ContainsAny(stripWSInsideOnly(stream), "{}") {
			c.Count("json:brace-in-string")
		}
	}
	if api.json && r.Intn(4) == 0 {
		mxj.JsonUseNumber = true // honoured by every JSON reader form alike (numbers keep their text)
		defer func() { mxj.JsonUseNumber = false }()
		c.Count("option:json-use-number")
	}
	// expected Maps: the library's direct decode of each document's bytes
	wantFp := make([]string, len(ds))
	for k, d := range ds {
		var m interface{}
		var err error
		switch {
		case api.json:
			m, err = mxj.NewMapJson([]byte(d.text))
		case api.seq:
			m, err = mxj.NewMapXmlSeq([]byte(d.text))
		default:
			m, err = mxj.NewMapXml([]byte(d.text))
		}
		if err != nil {
			c.Harness(fmt.Sprintf("C13 generator produced a document the direct decoder rejects: %q: %v", d.text, err))
			return
		}
		wantFp[k] = jv.Fp(m)
	}
	if c.WantSample() && len(ds) >= 2 && len(stream) < 160 {
		c.Sample(core.D{"api": api.name, "stream": stream, "documents": len(ds), "schedules": "baseline x2 + single-fault sweep: " + fmt.Sprint(2*len(stream)) + " schedules"})
	}
	c.Distinct("apis", core.HashStr(api.name))
	stopAt := -1
	if api.handler && r.Intn(3) == 0 && !hasEmpty {
		stopAt = r.Intn(len(ds))
	}
	// baselines + complete single-fault sweep
	for _, eofWith := range []bool{false, true} {
		c13run(c, api, stream, ds, wantFp, c13sched{eofWith: eofWith, stopAt: stopAt}, c.Verbose)
		for p := 0; p < len(stream) && !deep; p++ {
			if hasEmpty && p%7 != c.Index%7 {
				continue // each skipped empty document costs a poll interval: every seventh position only
			}
			c13run(c, api, stream, ds, wantFp, c13sched{zeroAt: map[int]int{p: 1 + p%7}, eofWith: eofWith, stopAt: stopAt}, c.Verbose)
		}
	}
	c.Count("streams-swept-exhaustively")
	// long stalls: a run of 90..400 consecutive (0,nil) reads at one position (legal; bufio itself gives up after 100,
	// so bufio sources are left out)
	if api.byteSrc != "bufio" {
		for i := 0; i < 4; i++ {
			p := []int{0, len(stream) - 1, r.Intn(len(stream)), r.Intn(len(stream))}[i]
			n := 90 + r.Intn(311)
			if i == 3 {
				n = autoInt(r, 8, 5000, 256) // a limit the tree itself spells out (+-1)
			}
			c.Count("schedule:long-stall")
			c13run(c, api, stream, ds, wantFp, c13sched{zeroAt: map[int]int{p: n}, eofWith: r.Intn(2) == 0, stopAt: stopAt}, c.Verbose)
		}
	}
	if len(ds) >= 2 && (c.Index/len(c13apiList))%2 == 0 && !hasEmpty {
		c13fileResume(c, api, stream, ds, wantFp)
	}
	// random multi-fault schedules with chunking
	nr := 4
	if c.Thorough() {
		nr = 40
	}
	for i := 0; i < nr; i++ {
		za := map[int]int{}
		for j, n := 0, r.Intn(6); j < n; j++ {
			za[r.Intn(len(stream)+1)] = 1 + r.Intn(10)
		}
		var caps []int
		for j, n := 0, r.Intn(4); j < n; j++ {
			caps = append(caps, 1+r.Intn(7))
		}
		c13run(c, api, stream, ds, wantFp, c13sched{zeroAt: za, eofWith: r.Intn(2) == 0, caps: caps, stopAt: stopAt}, c.Verbose)
	}
}

// c13fileResume: the same stream in an *os.File. The API consumes documents 0..k (a handler stops after document k,
// a loop API is simply called k+1 times); the caller then continues on the SAME file with the plain reader: it must get
// documents k+1.. in order and io.EOF - nothing may have been read ahead and thrown away - and the file offset after the
// first phase must lie within [end of document k, start of document k+1].
func c13fileResume(c *core.Ctx, api c13api, stream string, ds []docSpan, wantFp []string) {
	if api.byteSrc != "" || strings.HasPrefix(api.name, "x2j-wrapper.XmlMsgsFromReader") {
		return
	}
	fn := filepath.Join(c19scratch(), "c13.stream")
	if err := os.WriteFile(fn, []byte(stream), 0o644); err != nil {
		c.Harness("c13: " + err.Error())
		return
	}
	defer os.Remove(fn)
	fh, err := os.Open(fn)
	if err != nil {
		c.Harness("c13: " + err.Error())
		return
	}
	defer fh.Close()
	k := c.R.Intn(len(ds) - 1) // stop after document k (< last)
	c.Eval()
	// the file readers inherit the contract: same Maps in order; XML Raw values are precisely the bytes consumed
	if !api.seq {
		c.Count("file-reader-checks")
		var fps []string
		var raws []string
		var ferr error
		if api.json {
			var ms mxj.Maps
			ms, ferr = mxj.NewMapsFromJsonFile(fn)
			for _, m := range ms {
				fps = append(fps, jv.Fp(m))
			}
		} else if c.R.Intn(2) == 0 {
			var ms mxj.Maps
			ms, ferr = mxj.NewMapsFromXmlFile(fn)
			for _, m := range ms {
				fps = append(fps, jv.Fp(m))
			}
		} else {
			var mr []mxj.MapRaw
			mr, ferr = mxj.NewMapsFromXmlFileRaw(fn)
			for _, m := range mr {
				fps = append(fps, jv.Fp(m.M))
				raws = append(raws, string(m.R))
			}
		}
		fdet := core.D{"api": "file reader of the codec of " + api.name, "stream": stream, "documents": len(ds)}
		if ferr != nil || len(fps) != len(ds) {
			fdet["err"], fdet["maps_read"] = fmt.Sprint(ferr), len(fps)
			c.Violate("c13-file-reader", "the file reader does not return one Map per document of a well-formed file", fdet)
			return
		}
		for i := range fps {
			if fps[i] != wantFp[i] {
				fdet["document"] = i
				c.Violate("c13-file-reader-map", "a Map from the file reader differs from decoding the document's bytes", fdet)
				return
			}
		}
		cat := ""
		for i, rw := range raws {
			if !strings.Contains(rw, ds[i].text) || !strings.HasPrefix(stream[len(cat):], rw) {
				fdet["document"], fdet["raw"] = i, rw
				c.Violate("c13-file-reader-raw", "a Raw value from NewMapsFromXmlFileRaw is not the bytes consumed for its document", fdet)
				return
			}
			cat += rw
		}
	}
	c.Count("file-resume-checks")
	c.NonTrivial(stream, api.name, fmt.Sprint("file-resume", k))
	det := core.D{"api": api.name, "stream": stream, "source": "*os.File", "first_phase_consumes_documents": k + 1}
	var res runResult
	if api.handler {
		res = api.run(fh, &hostileReader{}, k)
	} else {
		hr := &hostileReader{}
		for i := 0; i <= k; i++ {
			r1 := loopOnce(api, fh)
			if r1.finalErr != nil {
				det["err"] = r1.finalErr.Error()
				c.Violate("c13-file-doc-error", api.name+": reading a well-formed stream from an *os.File failed", det)
				return
			}
			res.deliveries = append(res.deliveries, r1.deliveries...)
		}
		_ = hr
	}
	if len(res.deliveries) != k+1 {
		det["delivered"] = len(res.deliveries)
		c.Violate("c13-file-count", api.name+": wrong number of documents delivered from an *os.File before the stop", det)
		return
	}
	for i := 0; i <= k; i++ {
		if res.deliveries[i].fp != wantFp[i] {
			c.Violate("c13-file-map", api.name+": a document read from an *os.File differs from decoding its bytes", det)
			return
		}
	}
	off, _ := fh.Seek(0, io.SeekCurrent)
	det["file_offset_after_first_phase"] = off
	if int(off) < ds[k].end || int(off) > ds[k+1].start {
		c.Violate("c13-file-overread", fmt.Sprintf("%s: after document #%d the *os.File offset %d is outside [%d, %d]: bytes of the following documents were consumed", api.name, k, off, ds[k].end, ds[k+1].start), det)
		return
	}
	c13pipeAndBuffer(c, api, stream, ds, wantFp)
	if !api.json && !api.seq && c.R.Intn(12) == 0 {
		// a regular file whose size is reported as 0 although it delivers data (procfs): the file readers read, they do not
		// trust the size. /proc/self/comm holds up to 15 bytes; the old content is put back.
		const pf = "/proc/self/comm"
		if old, err := os.ReadFile(pf); err == nil && os.WriteFile(pf, []byte("<a/><b>c</b>"), 0o644) == nil {
			ms, e1 := mxj.NewMapsFromXmlFile(pf)
			mr, e2 := mxj.NewMapsFromXmlFileRaw(pf)
			os.WriteFile(pf, bytes.TrimSpace(old), 0o644)
			c.Count("file-reader-checks:size-0-file-with-data")
			c.Eval()
			if e1 != nil || e2 != nil || len(ms) != 2 || len(mr) != 2 {
				c.Violate("c13-file-reader", "the file readers do not return the documents of a regular file that reports size 0 (procfs)", core.D{"file": pf, "content": "<a/><b>c</b>", "maps": len(ms), "maps_raw": len(mr), "err": fmt.Sprint(e1, e2)})
			}
		}
	}
	// resume on the same file with the plain reader of the same codec
	for i := k + 1; i <= len(ds); i++ {
		var m interface{}
		var e error
		switch {
		case api.json:
			m, e = mxj.NewMapJsonReader(fh)
		case api.seq:
			m, e = mxj.NewMapXmlSeqReader(fh)
		default:
			m, e = mxj.NewMapXmlReader(fh)
		}
		if i == len(ds) {
			if e != io.EOF {
				det["err"] = fmt.Sprint(e)
				c.Violate("c13-file-resume", api.name+": resuming on the same *os.File did not end with io.EOF", det)
			}
			return
		}
		if e != nil || jv.Fp(m) != wantFp[i] {
			det["err"], det["resumed_document"] = fmt.Sprint(e), i
			c.Violate("c13-file-resume", api.name+": the caller resuming on the same *os.File does not get the following documents (they were read ahead and lost)", det)
			return
		}
	}
}

// c13pipeAndBuffer: (a) the stream through an os.Pipe - an *os.File that cannot seek: whatever a reader reads ahead is
// gone -, one loop call per document and a final io.EOF; (b) the Raw readers on a *bytes.Buffer: the caller appends to the
// Raw value it was given (its own slice, by contract) before asking for the next document.
func c13pipeAndBuffer(c *core.Ctx, api c13api, stream string, ds []docSpan, wantFp []string) {
	if api.handler || api.byteSrc != "" || strings.HasPrefix(api.name, "x2j-wrapper.XmlMsgsFromReader") {
		return
	}
	if pr, pw, err := os.Pipe(); err == nil {
		go func() {
			pw.Write([]byte(stream))
			pw.Close()
		}()
		c.Eval()
		c.Count("pipe-source-checks")
		det := core.D{"api": api.name, "stream": stream, "source": "os.Pipe (an *os.File that cannot seek)"}
		for i := 0; i <= len(ds); i++ {
			r1 := loopOnce(api, pr)
			if i == len(ds) {
				if r1.finalErr != io.EOF {
					det["err"] = fmt.Sprint(r1.finalErr)
					c.Violate("c13-pipe", api.name+": reading from a pipe did not end with io.EOF after the last document", det)
				}
				break
			}
			if r1.finalErr != nil || len(r1.deliveries) != 1 || r1.deliveries[0].fp != wantFp[i] {
				det["document"], det["err"] = i, fmt.Sprint(r1.finalErr)
				c.Violate("c13-pipe", api.name+": a document read from a pipe is missing or differs from decoding its bytes (read-ahead lost?)", det)
				break
			}
		}
		pr.Close()
	}
	if strings.HasSuffix(api.name, "Raw") && len(ds) >= 2 {
		buf := bytes.NewBufferString(stream)
		c.Eval()
		c.Count("raw-appended-by-caller-checks")
		det := core.D{"api": api.name, "stream": stream, "source": "*bytes.Buffer; the caller appends to each Raw value before the next call"}
		for i := 0; i < len(ds); i++ {
			var m interface{}
			var raw []byte
			var err error
			switch api.name {
			case "NewMapXmlReaderRaw":
				m, raw, err = mxj.NewMapXmlReaderRaw(buf)
			case "NewMapXmlSeqReaderRaw":
				m, raw, err = mxj.NewMapXmlSeqReaderRaw(buf)
			default:
				m, raw, err = mxj.NewMapJsonReaderRaw(buf)
			}
			if err != nil || jv.Fp(m) != wantFp[i] {
				det["document"], det["err"] = i, fmt.Sprint(err)
				c.Violate("c13-raw-aliases-source", api.name+": after the caller appended to the previous Raw value the next document is wrong (Raw shares the source buffer's storage)", det)
				return
			}
			raw = append(raw, "<<<<{{{{\"\"\"\"]]>>&&&&"...)
			_ = raw
		}
	}
}

// loopOnce performs exactly one call of a loop API.
func loopOnce(api c13api, src io.Reader) runResult {
	var m interface{}
	var err error
	switch api.name {
	case "NewMapXmlReader":
		m, err = mxj.NewMapXmlReader(src)
	case "NewMapXmlReaderRaw":
		m, _, err = mxj.NewMapXmlReaderRaw(src)
	case "NewMapXmlSeqReader":
		m, err = mxj.NewMapXmlSeqReader(src)
	case "NewMapXmlSeqReaderRaw":
		m, _, err = mxj.NewMapXmlSeqReaderRaw(src)
	case "NewMapJsonReader":
		m, err = mxj.NewMapJsonReader(src)
	case "NewMapJsonReaderRaw":
		m, _, err = mxj.NewMapJsonReaderRaw(src)
	default:
		m, err = x2jw.ToMap(src)
	}
	if err != nil {
		return runResult{finalErr: err}
	}
	return runResult{deliveries: []delivery{{fp: jv.Fp(m)}}}
}

// stripWSInsideOnly returns the concatenation of the contents of JSON strings (to see whether braces occur inside strings).
func stripWSInsideOnly(s string) string {
	var b strings.Builder
	inQ, esc := false, false
	for i := 0; i < len(s); i++ {
		ch := s[i]
		if inQ {
			if esc {
				esc = false
				b.WriteByte(ch)
			} else if ch == '\\' {
				esc = true
			} else if ch == '"' {
				inQ = false
			} else {
				b.WriteByte(ch)
			}
			continue
		}
		if ch == '"' {
			inQ = true
		}
	}
	return b.String()
}
