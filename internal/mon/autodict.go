package mon

import (
	"go/ast"
	"go/constant"
	"go/parser"
	"go/scanner"
	"go/token"
	"math/rand"
	"os"
	"path/filepath"
	"regexp"
	"sort"
	"strconv"
	"strings"
	"unicode/utf8"

	"verif/internal/core"
	"verif/internal/jv"
	"verif/internal/xt"
)

// Source-derived dictionary ("autodict"): every string / rune / integer literal of the non-test Go files of the tree under
// test (VERIF_MXJ_SRC, set by the driver to the directory the worker was built from). A change that special-cases a value
// has to spell that value somewhere in the source; feeding the tree's own literals back as keys, names, texts, sizes makes
// the workloads reach such comparisons without anybody having to guess the magic value. The dictionary only widens the
// input generators - no oracle reads it - and is a pure function of the tree, so a case list stays a function of
// (tree, property, tier, seed).
type autoDict struct {
	Strings  []string // all literals, 1..24 bytes, valid UTF-8, no NUL
	Names    []string // literals usable as XML element/attribute local names in every monitor (no ':' '.')
	Keys     []string // literals usable as Map keys in the path monitors (none of . [ ] * : | ; = > § !, no blank at an edge), <= 16 bytes
	Texts    []string // literals made of XML-legal characters, no CR
	TextsCR  []string // the same including literals with CR (C01 renders CR as a character reference)
	Ints     []int    // integer literals in 2..2^20
	Hash     uint64
	Files    int
	Literals int
}

var auto autoDict

var nameRe = regexp.MustCompile(`^[A-Za-z_][A-Za-z0-9_-]*$`)

// InitAutoDict scans dir (recursively; *_test.go, examples and hidden directories left out).
func InitAutoDict(dir string) {
	auto = autoDict{}
	if dir == "" {
		return
	}
	strs := map[string]bool{}
	ints := map[int]bool{}
	filepath.Walk(dir, func(p string, fi os.FileInfo, err error) error {
		if err != nil {
			return nil
		}
		if fi.IsDir() {
			b := fi.Name()
			if p != dir && (strings.HasPrefix(b, ".") || b == "examples" || b == "testdata") {
				return filepath.SkipDir
			}
			return nil
		}
		if !strings.HasSuffix(p, ".go") || strings.HasSuffix(p, "_test.go") || strings.HasPrefix(fi.Name(), "verif_") {
			return nil
		}
		src, err := os.ReadFile(p)
		if err != nil {
			return nil
		}
		auto.Files++
		fset := token.NewFileSet()
		f := fset.AddFile(p, fset.Base(), len(src))
		var s scanner.Scanner
		s.Init(f, src, nil, 0)
		for {
			_, tok, lit := s.Scan()
			if tok == token.EOF {
				break
			}
			switch tok {
			case token.STRING:
				if v, err := strconv.Unquote(lit); err == nil {
					strs[v] = true
					auto.Literals++
				}
			case token.CHAR:
				if v, _, _, err := strconv.UnquoteChar(lit[1:len(lit)-1], '\''); err == nil {
					strs[string(v)] = true
					auto.Literals++
				}
			case token.INT:
				if v, err := strconv.ParseInt(lit, 0, 32); err == nil && v >= 2 && v <= 1<<26 {
					ints[int(v)] = true
				}
			}
		}
		// sizes are often spelled as constant expressions (4<<20, 64*1024): evaluate those made of integer literals only
		if af, err := parser.ParseFile(token.NewFileSet(), p, src, 0); err == nil {
			ast.Inspect(af, func(n ast.Node) bool {
				if be, ok := n.(*ast.BinaryExpr); ok {
					if v := constInt(be); v != nil {
						if i, exact := constant.Int64Val(v); exact && i >= 2 && i <= 1<<26 {
							ints[int(i)] = true
						}
					}
				}
				return true
			})
		}
		return nil
	})
	for s := range strs {
		if len(s) == 0 || len(s) > 24 || !utf8.ValidString(s) || strings.ContainsRune(s, 0) {
			continue
		}
		auto.Strings = append(auto.Strings, s)
	}
	sort.Strings(auto.Strings)
	for _, s := range auto.Strings {
		if len(s) <= 16 && nameRe.MatchString(s) {
			auto.Names = append(auto.Names, s)
		}
		if len(s) <= 16 && !strings.ContainsAny(s, ".[]*:|;=>§!") && strings.TrimSpace(s) == s {
			auto.Keys = append(auto.Keys, s)
		}
		legal := true
		for _, c := range s {
			if c < 0x20 && c != '\t' && c != '\n' && c != '\r' || c == 0xFFFE || c == 0xFFFF || c == utf8.RuneError {
				legal = false
			}
		}
		if legal {
			auto.TextsCR = append(auto.TextsCR, s)
			if !strings.Contains(s, "\r") {
				auto.Texts = append(auto.Texts, s) // (a literal CR is normalised to LF by every XML tokenizer: outside the value domains)
			}
		}
	}
	for v := range ints {
		auto.Ints = append(auto.Ints, v)
	}
	sort.Ints(auto.Ints)
	auto.Hash = core.HashStr(strings.Join(auto.Strings, "\x00"))
	for _, v := range auto.Ints {
		auto.Hash = core.Mix(auto.Hash, uint64(v))
	}
	applyAutoDict()
}

// applyAutoDict hands the dictionary to the document generators (each within its own domain restrictions).
func applyAutoDict() {
	var stable []string
	noCR := auto.Texts
	for _, t := range auto.Texts {
		if strings.Trim(t, "\t\r\n ") == t {
			stable = append(stable, t)
		}
	}
	jv.WideSizes = nil
	for _, v := range auto.Ints {
		if v >= 8 && v <= 256 {
			jv.WideSizes = append(jv.WideSizes, v, v+1)
		}
	}
	for _, g := range []*xt.GenCfg{&c01gen, &c02gen, &c04gen, &c14gen, &c13xmlgen, &c15xmlgen, &c15seqgen, &c20gen} {
		g.AutoNames, g.AutoEvery = auto.Names, 20
	}
	c01gen.AutoTexts = auto.TextsCR
	c02gen.AutoTexts, c04gen.AutoTexts = noCR, noCR
	c14gen.AutoTexts = stable
	c13xmlgen.AutoTexts, c20gen.AutoTexts = noCR, noCR
}

// constInt evaluates an expression built from integer literals, parentheses and + - * / << >> only (nil otherwise).
func constInt(e ast.Expr) constant.Value {
	switch t := e.(type) {
	case *ast.BasicLit:
		if t.Kind == token.INT {
			return constant.MakeFromLiteral(t.Value, token.INT, 0)
		}
	case *ast.ParenExpr:
		return constInt(t.X)
	case *ast.BinaryExpr:
		x, y := constInt(t.X), constInt(t.Y)
		if x == nil || y == nil || x.Kind() != constant.Int || y.Kind() != constant.Int {
			return nil
		}
		switch t.Op {
		case token.ADD, token.SUB, token.MUL:
			return constant.BinaryOp(x, t.Op, y)
		case token.QUO:
			if constant.Sign(y) == 0 {
				return nil
			}
			return constant.BinaryOp(x, token.QUO_ASSIGN, y) // integer division
		case token.SHL, token.SHR:
			if s, ok := constant.Uint64Val(y); ok && s < 40 {
				return constant.Shift(x, t.Op, uint(s))
			}
		}
	}
	return nil
}

// autoBig: a size >= 1 MiB that the tree spells out (0 if it spells none).
func autoBig(r *rand.Rand) int {
	var c []int
	for _, v := range auto.Ints {
		if v >= 1<<20 {
			c = append(c, v)
		}
	}
	if len(c) == 0 {
		return 0
	}
	return c[r.Intn(len(c))]
}

// AutoDictEvidence reports what the dictionary holds (recorded once per shard).
func AutoDictEvidence(c *core.Ctx) {
	c.Max("max:autodict-source-files", int64(auto.Files))
	c.Max("max:autodict-strings", int64(len(auto.Strings)))
	c.Max("max:autodict-names", int64(len(auto.Names)))
	c.Max("max:autodict-ints", int64(len(auto.Ints)))
	if len(auto.Strings) > 0 {
		c.Distinct("autodict-versions", auto.Hash)
	}
}

func autoPick(r *rand.Rand, l []string, fallback string) string {
	if len(l) == 0 {
		return fallback
	}
	return l[r.Intn(len(l))]
}

// autoKey / autoName / autoText / autoString: one literal of the kind, or fallback when the dictionary is empty.
func autoKey(r *rand.Rand, fallback string) string    { return autoPick(r, auto.Keys, fallback) }
func autoName(r *rand.Rand, fallback string) string   { return autoPick(r, auto.Names, fallback) }
func autoText(r *rand.Rand, fallback string) string   { return autoPick(r, auto.Texts, fallback) }
func autoString(r *rand.Rand, fallback string) string { return autoPick(r, auto.Strings, fallback) }

// autoKeys returns n dictionary keys (fewer when the dictionary is small).
func autoKeys(r *rand.Rand, n int) []string {
	var out []string
	for i := 0; i < n && len(auto.Keys) > 0; i++ {
		out = append(out, auto.Keys[r.Intn(len(auto.Keys))])
	}
	return out
}

// autoBlock: a buffer-like size: 4096, or (one time in three) an integer literal of the tree in 64..65536.
func autoBlock(r *rand.Rand) int {
	if r.Intn(3) == 0 {
		var c []int
		for _, v := range auto.Ints {
			if v >= 64 && v <= 65536 {
				c = append(c, v)
			}
		}
		if len(c) > 0 {
			return c[r.Intn(len(c))]
		}
	}
	return 4096
}

// autoInt returns an integer literal of the tree within [lo,hi] (now and then off by one), or fallback.
func autoInt(r *rand.Rand, lo, hi, fallback int) int {
	var c []int
	for _, v := range auto.Ints {
		if v >= lo && v <= hi {
			c = append(c, v)
		}
	}
	if len(c) == 0 {
		return fallback
	}
	v := c[r.Intn(len(c))] + []int{0, 0, 1, -1, 2}[r.Intn(5)]
	if v < lo {
		v = lo
	}
	return v
}
