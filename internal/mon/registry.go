// Package mon holds one monitor per property C01..C20.
package mon

import (
	"fmt"
	"reflect"
	"sort"

	mxj "github.com/clbanning/mxj/v2"
	x2jw "github.com/clbanning/mxj/v2/x2j-wrapper"

	"verif/internal/core"
)

var registry = map[string]core.Monitor{}

func register(m core.Monitor) { registry[m.Meta().ID] = m }

func ByID(id string) core.Monitor { return registry[id] }

func All() []core.Monitor {
	ids := make([]string, 0, len(registry))
	for id := range registry {
		ids = append(ids, id)
	}
	sort.Strings(ids)
	out := make([]core.Monitor, 0, len(ids))
	for _, id := range ids {
		out = append(out, registry[id])
	}
	return out
}

// processStart is the hooked option state of a fresh process (taken in init,
// before any setter can have run).
var processStart = mxj.VerifOptionSnapshot()
var processStartW = x2jw.VerifOptionSnapshot()

// ResetDefaults puts every package-level option back to its documented default
// using only the public setters.
func ResetDefaults() {
	mxj.SetAttrPrefix("-")
	mxj.SetGlobalKeyMapPrefix("#")
	mxj.IncludeTagSeqNum(false)
	mxj.CoerceKeysToLower(false)
	mxj.CoerceKeysToSnakeCase(false)
	mxj.DisableTrimWhiteSpace(false)
	mxj.CastValuesToInt(false)
	mxj.CastValuesToFloat(true)
	mxj.CastValuesToBool(true)
	mxj.CastNanInf(false)
	mxj.SetCheckTagToSkipFunc(nil)
	mxj.HandleXMPPStreamTag(false)
	mxj.DecodeSimpleValuesAsMap(false)
	mxj.XmlDefaultEmptyElemSyntax()
	mxj.XmlCheckIsValid(false)
	mxj.XMLEscapeCharsDecoder(false)
	mxj.XMLEscapeChars(false)
	mxj.SetFieldSeparator()
	mxj.SetArraySize(0)
	mxj.LeafUseDotNotation(false)
	mxj.JsonUseNumber = false
	mxj.CustomDecoder = nil
	mxj.XmlCharsetReader = nil
	x2jw.CastNanInf(false)
}

// AssertDefaults checks through the hook that the process is in the default
// option state (every worker starts and ends there).
func AssertDefaults(c *core.Ctx, when string) {
	now := mxj.VerifOptionSnapshot()
	if !reflect.DeepEqual(now, processStart) {
		c.Harness(fmt.Sprintf("option state at %s differs from process start: %s", when, diffSnap(processStart, now)))
	}
	if noww := x2jw.VerifOptionSnapshot(); !reflect.DeepEqual(noww, processStartW) {
		c.Harness(fmt.Sprintf("x2j-wrapper option state at %s differs from process start: %s", when, diffSnap(processStartW, noww)))
	}
}

// ambientDecoderOptions sets, in a fraction of the cases, decoder/encoder options that the map-query and update
// functions do not document as affecting them (the caller must defer ResetDefaults).
func ambientDecoderOptions(c *core.Ctx, oneIn int) bool {
	r := c.R
	if r.Intn(oneIn) != 0 {
		return false
	}
	mxj.CoerceKeysToLower(r.Intn(2) == 0)
	mxj.CoerceKeysToSnakeCase(r.Intn(2) == 0)
	mxj.SetAttrPrefix([]string{"@", "", "-", "attr_"}[r.Intn(4)])
	mxj.DisableTrimWhiteSpace(r.Intn(2) == 0)
	mxj.DecodeSimpleValuesAsMap(r.Intn(2) == 0)
	mxj.CastNanInf(r.Intn(2) == 0)
	mxj.XMLEscapeChars(r.Intn(2) == 0)
	mxj.LeafUseDotNotation(r.Intn(2) == 0) // documented for the Leaf* functions only
	c.Count("ambient:decoder-options")
	return true
}

// AssertRestored: after the workload every option was set back to its default through the public setters; if the
// hooked state still differs from the fresh-process state the library cannot be restored - reported as a violation
// (whatever the property being checked, its oracle cannot be trusted in that state).
func AssertRestored(c *core.Ctx) {
	now := mxj.VerifOptionSnapshot()
	if !reflect.DeepEqual(now, processStart) {
		c.Index = -1
		c.Violate("options-not-restored-to-defaults", "after setting every option back to its default the package option state differs from a fresh process", core.D{"difference(fresh -> now)": diffSnap(processStart, now)})
	}
	if noww := x2jw.VerifOptionSnapshot(); !reflect.DeepEqual(noww, processStartW) {
		c.Index = -1
		c.Violate("options-not-restored-to-defaults", "x2j-wrapper option state differs from a fresh process", core.D{"difference": diffSnap(processStartW, noww)})
	}
}

func diffSnap(a, b map[string]interface{}) string {
	s := ""
	keys := make([]string, 0, len(a))
	for k := range a {
		keys = append(keys, k)
	}
	sort.Strings(keys)
	for _, k := range keys {
		if !reflect.DeepEqual(a[k], b[k]) {
			s += fmt.Sprintf("%s: %#v -> %#v; ", k, a[k], b[k])
		}
	}
	return s
}
