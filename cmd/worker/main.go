// worker: monitored workload runner. Links the mxj sources in /repo (replace
// directive) and is rebuilt by the driver on every check.
package main

import (
	"encoding/json"
	"flag"
	"fmt"
	"os"
	"runtime/debug"
	"strings"

	"verif/internal/core"
	"verif/internal/mon"
)

func main() {
	meta := flag.String("meta", "", "print monitor meta for property id (or 'all')")
	prop := flag.String("prop", "", "property id")
	tier := flag.String("tier", "quick", "quick|thorough")
	seed := flag.Int64("seed", 1, "VERIF_SEED")
	shard := flag.Int("shard", 0, "shard index")
	nshards := flag.Int("nshards", 1, "number of shards")
	race := flag.Bool("race", false, "this is the -race build: run the race-mode cases")
	out := flag.String("out", "", "output directory")
	only := flag.Int("only", -1, "run only this case index")
	verbose := flag.Bool("v", false, "verbose")
	c19child := flag.String("c19child", "", "internal: kind:file - read a file (run under strace fault injection)")
	c01child := flag.String("c01child", "", "internal: base64(keyprefix).base64(doc) - decode under a key prefix set in a fresh process")
	c17child := flag.Int("c17child", 0, "internal: n goroutines make the first Gob calls of a fresh process (gob types not registered)")
	flag.Parse()

	if *c01child != "" {
		i := strings.Index(*c01child, ".")
		mon.C01Child((*c01child)[:i], (*c01child)[i+1:])
		return
	}
	if *c17child > 0 {
		mon.C17GobChild(*c17child)
		return
	}
	if *c19child != "" {
		i := strings.Index(*c19child, ":")
		mon.C19Child((*c19child)[:i], (*c19child)[i+1:])
		return
	}

	if *meta != "" {
		var ms []core.Meta
		for _, m := range mon.All() {
			if *meta == "all" || m.Meta().ID == *meta {
				ms = append(ms, m.Meta())
			}
		}
		b, _ := json.Marshal(ms)
		fmt.Println(string(b))
		return
	}

	m := mon.ByID(*prop)
	if m == nil {
		fmt.Fprintln(os.Stderr, "unknown property", *prop)
		os.Exit(2)
	}
	c := core.NewCtx(*prop, *tier, *seed, *shard, *nshards, *race)
	c.Verbose = *verbose
	n := m.Cases(*tier, *race)

	var prog *os.File
	if *out != "" {
		tag := fmt.Sprintf("%s/shard-%02d", *out, *shard)
		if *race {
			tag += "r"
		}
		var err error
		prog, err = os.Create(tag + ".progress")
		if err != nil {
			fmt.Fprintln(os.Stderr, err)
			os.Exit(2)
		}
	}
	if !(*prop == "C17" && *race && *shard%4 >= 2) {
		mon.RegisterGobTypes()
	}
	mon.InitAutoDict(os.Getenv("VERIF_MXJ_SRC"))
	mon.AutoDictEvidence(c)
	mon.AssertDefaults(c, "process start")

	run := func(i int) {
		c.Index = i
		c.R = core.NewRand(*prop, *seed, i, 0)
		if prog != nil {
			// logged before the library is invoked: a fatal runtime error is attributed to this case
			prog.WriteAt([]byte(fmt.Sprintf("%012d\n", i)), 0)
		}
		defer func() {
			if r := recover(); r != nil {
				st := string(debug.Stack())
				site, inLib := panicSite(st)
				if inLib {
					c.Violate("panic:"+site, fmt.Sprintf("library panic: %v", r), core.D{"panic": fmt.Sprint(r), "stack": trimStack(st)})
				} else {
					c.Harness(fmt.Sprintf("harness panic at case %d: %v\n%s", i, r, trimStack(st)))
				}
				mon.ResetDefaults()
			}
		}()
		m.Case(c)
	}
	if *only >= 0 {
		run(*only)
	} else {
		for i := *shard; i < n; i += *nshards {
			run(i)
		}
	}
	if f, ok := m.(core.Finisher); ok && *only < 0 {
		func() {
			defer func() {
				if r := recover(); r != nil {
					c.Harness(fmt.Sprintf("harness panic in Finish: %v\n%s", r, trimStack(string(debug.Stack()))))
				}
			}()
			f.Finish(c)
		}()
	}
	mon.ResetDefaults()
	mon.AssertRestored(c)
	if *out != "" {
		if err := c.WriteReport(*out, true); err != nil {
			fmt.Fprintln(os.Stderr, err)
			os.Exit(2)
		}
	}
	if *only >= 0 {
		if c.Violated() {
			fmt.Println("replay: violation reproduced")
			os.Exit(1)
		}
		fmt.Println("replay: no violation on this tree")
	}
}

// panicSite finds the function that panicked: the first frame after the
// runtime's panic frames. inLib reports whether it belongs to mxj.
func panicSite(st string) (string, bool) {
	lines := strings.Split(st, "\n")
	seenPanic := false
	for i := 0; i < len(lines); i++ {
		l := lines[i]
		if strings.HasPrefix(l, "panic(") {
			seenPanic = true
			continue
		}
		if !seenPanic || strings.HasPrefix(l, "\t") || l == "" {
			continue
		}
		if strings.HasPrefix(l, "runtime.") || strings.HasPrefix(l, "runtime/") {
			continue
		}
		// first non-runtime frame after panic(): walk up through std-library frames
		// (sort, strings, encoding/...) to the first mxj or harness frame
		for j := i; j < len(lines); j++ {
			f := lines[j]
			if strings.HasPrefix(f, "\t") || f == "" {
				continue
			}
			if strings.Contains(f, "github.com/clbanning/mxj") {
				name := f
				if k := strings.LastIndex(name, "("); k > 0 {
					name = name[:k]
				}
				name = strings.TrimPrefix(name, "github.com/clbanning/mxj/v2")
				name = strings.TrimPrefix(name, ".")
				name = strings.TrimPrefix(name, "/")
				return name, true
			}
			if strings.HasPrefix(f, "verif/") || strings.HasPrefix(f, "main.") {
				return f, false
			}
		}
		return l, false
	}
	return "unknown", false
}

func trimStack(st string) string {
	lines := strings.Split(st, "\n")
	if len(lines) > 40 {
		lines = lines[:40]
	}
	return strings.Join(lines, "\n")
}
