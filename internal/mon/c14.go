package mon

import (
	"encoding/json"
	"fmt"
	"math"
	"strings"

	mxj "github.com/clbanning/mxj/v2"
	x2jw "github.com/clbanning/mxj/v2/x2j-wrapper"

	"verif/internal/core"
	"verif/internal/jv"
	"verif/internal/xt"
)

// C14 - lock-step monitor: cast decoding vs un-cast decoding of the same document.
type c14 struct{}

func init() { register(c14{}) }

func (c14) Meta() core.Meta {
	return core.Meta{
		ID: "C14", Level: "exploration",
		Rule:        "case i = f(seed,i): C01 document whose leaf texts come from integers (incl. +-2^63, 2^64 boundaries), decimal/exponent/hex floats, overflowing numerals, every case and sign spelling of nan/inf/infinity, ParseBool spellings accepted and rejected, and ordinary text, in element, attribute and text-key positions; configuration = one of the 32 combinations of cast-to-int/float/bool, CastNanInf, skip-tag function (x simple-as-map, attribute/key prefix, lower). NewMapXml(doc) and NewMapXml(doc,true) (and the NewMapXmlSeq pair) are walked in lock step: same structure and keys; every un-cast leaf a string; every cast leaf == refCast(text, config, key); no NaN/Inf unless CastNanInf; Json() of the cast Map succeeds; x2j-wrapper.DocToJson(doc,true) succeeds. Non-trivial: at least one leaf changes type; distinct by hash(doc, flags).",
		Assumptions: []string{"strconv defines what a text denotes", "for text beside child elements only, the key shown to the skip function is unspecified (element tag or text key)"},
		Anchors:     []string{"cast", "CastValuesToInt", "CastValuesToFloat", "CastValuesToBool", "CastNanInf", "SetCheckTagToSkipFunc", "xmlToMapParser", "xmlSeqToMapParser", "x2j-wrapper.DocToJson"},
		Floors:      map[string]int64{"leaf:cast-to-int": 1000, "leaf:cast-to-float": 1000, "leaf:cast-to-bool": 500, "leaf:naninf-spelling-kept": 1000, "leaf:naninf-cast": 100, "leaf:skipped-by-func": 300, "pos:attr": 5000, "pos:textkey": 2000, "pos:element": 5000},
		SetFloors:   map[string]int64{"flagcombos": 32},
	}
}

func (c14) Cases(tier string, race bool) int {
	if race {
		return 0
	}
	if tier == "thorough" {
		return 400000
	}
	return 40000
}

var c14texts = func() []string {
	var o []string
	for _, t := range xt.DefTexts {
		if t != "" && strings.Trim(t, "\t\r\n ") == t { // untrimmed texts only: the un-cast leaf is then exactly the text
			o = append(o, t)
		}
	}
	// numerals longer than any float's shortest decimal form: leading zeros, long fractions
	return append(o, "", "x", strings.Repeat("0", 350)+"7", "1."+strings.Repeat("0", 340), "-"+strings.Repeat("0", 330)+".5", "0."+strings.Repeat("0", 400)+"1", strings.Repeat("9", 400), "1"+strings.Repeat("0", 305)+".25")
}()

var c14gen = xt.GenCfg{Names: xt.DefNames, Prefixes: xt.DefPrefixes, Texts: c14texts, MaxKids: 4, MaxAttrs: 3, WideProb: 80}

type c14walk struct {
	c        *core.Ctx
	cfg      Cfg
	seq      bool
	bad      string
	changed  bool
	textK    string
	attrKeys func(k string) bool
}

// lock-step walk; parentKey is the key under which the current value sits.
func (w *c14walk) walk(path string, key string, u, v interface{}, parentHasAttrs bool, parentKey string) {
	if w.bad != "" {
		return
	}
	switch ut := u.(type) {
	case map[string]interface{}:
		vt, ok := v.(map[string]interface{})
		if !ok || len(vt) != len(ut) {
			w.bad = fmt.Sprintf("structure differs at %s: %s vs %s", path, jv.Show(u), jv.Show(v))
			return
		}
		hasAttrs := false
		for k := range ut {
			if w.attrKeys(k) {
				hasAttrs = true
			}
		}
		for _, k := range sortedKeys(ut) {
			vv, ok := vt[k]
			if !ok {
				w.bad = fmt.Sprintf("key %q missing in the cast Map at %s", k, path)
				return
			}
			w.walk(path+"."+k, k, ut[k], vv, hasAttrs, key)
		}
	case []interface{}:
		vt, ok := v.([]interface{})
		if !ok || len(vt) != len(ut) {
			w.bad = fmt.Sprintf("structure differs at %s", path)
			return
		}
		for i := range ut {
			w.walk(fmt.Sprintf("%s[%d]", path, i), key, ut[i], vt[i], parentHasAttrs, parentKey)
		}
	case int:
		// #seq / _seq numbers
		if vi, ok := v.(int); !ok || vi != ut {
			w.bad = fmt.Sprintf("sequence number differs at %s", path)
		}
	case string:
		c := w.c
		k := key
		if w.seq {
			k = "" // the skip function does not apply to the sequence decoder
		}
		want := w.cfg.refCast(ut, k)
		opts := w.cfg.refCastAll(ut, k)
		if !w.seq && key == w.textK && !parentHasAttrs && !w.cfg.SimpleAsMap && w.cfg.SkipFunc {
			// unspecified cell: text beside children only
			opts = append(opts, w.cfg.refCastAll(ut, parentKey)...)
		}
		ok := false
		for _, o := range opts {
			ok = ok || jv.Fp(v) == jv.Fp(o)
		}
		if !ok {
			w.bad = fmt.Sprintf("leaf at %s: text %q cast to %s, expected %s", path, ut, jv.Show(v), jv.Show(want))
			return
		}
		switch {
		case w.attrKeys(key):
			c.Count("pos:attr")
		case key == w.textK:
			c.Count("pos:textkey")
		default:
			c.Count("pos:element")
		}
		switch vt := v.(type) {
		case int64, uint64:
			w.changed = true
			c.Count("leaf:cast-to-int")
		case float64:
			w.changed = true
			if math.IsNaN(vt) || math.IsInf(vt, 0) {
				c.Count("leaf:naninf-cast")
				if !w.cfg.CastNanInf {
					w.bad = fmt.Sprintf("leaf at %s: %q became %v although CastNanInf is off", path, ut, vt)
				}
			} else {
				c.Count("leaf:cast-to-float")
			}
		case bool:
			w.changed = true
			c.Count("leaf:cast-to-bool")
		case string:
			if vt != ut {
				w.bad = fmt.Sprintf("leaf at %s: un-cast string changed from %q to %q", path, ut, vt)
			}
			if IsNanInfSpelling(ut) {
				c.Count("leaf:naninf-spelling-kept")
			}
			if w.cfg.SkipFunc && !w.seq && skipTag(key) && jv.Fp(w.cfg.withoutSkip().refCast(ut, key)) != jv.Fp(v) {
				c.Count("leaf:skipped-by-func")
			}
		}
	default:
		w.bad = fmt.Sprintf("un-cast decoding produced a non-string leaf at %s: %s", path, jv.Show(u))
	}
}

func (c Cfg) withoutSkip() Cfg { c.SkipFunc = false; return c }

func (c14) Case(c *core.Ctx) {
	r := c.R
	cfg := DefaultCfg()
	cfg.Cast = true
	bits := r.Intn(32)
	cfg.CastInt, cfg.CastFloat, cfg.CastBool, cfg.CastNanInf, cfg.SkipFunc = bits&1 != 0, bits&2 != 0, bits&4 != 0, bits&8 != 0, bits&16 != 0
	if r.Intn(4) == 0 {
		cfg.SimpleAsMap = true
	}
	if r.Intn(4) == 0 {
		cfg.AttrPrefix = []string{"@", "attr_", "_"}[r.Intn(3)]
	}
	if r.Intn(4) == 0 {
		cfg.KeyPrefix = "%"
	}
	if r.Intn(5) == 0 {
		cfg.Lower = true
	}
	if r.Intn(4) == 0 {
		cfg.Snake = true // the skip function is asked about the key as it appears in the Map (a_b, not a-b)
	}
	if r.Intn(6) == 0 {
		cfg.SeqNum = true // IncludeTagSeqNum wraps simple values as {text key, _seq}: the same wrapping with and without the cast flag
		if cfg.AttrPrefix != "" && strings.HasPrefix("_seq", cfg.AttrPrefix) {
			cfg.AttrPrefix = "@" // (the lock-step walker tells attributes from other entries by the prefix: "_seq" must not look like one)
		}
		c.Count("option:tag-seq-numbers")
	}
	c.Distinct("flagcombos", uint64(bits))
	root := c14gen.Gen(r, r.Intn(5))
	if cfg.usesReserved(root) || cfg.keyClash(root) || cfg.elemStartsWithAttrPrefix(root) { // (the lock-step walker tells attributes from elements by the prefix)
		c.Count("skipped:outside-domain")
		return
	}
	doc := xt.Render(r, root, xt.Style{})
	cfg.Apply()
	defer ResetDefaults()
	c.Eval()
	failedCalls(c, 8)
	det := core.D{"config": cfg.String(), "doc": string(doc)}
	anyChanged := false
	// ---- Map pair ----
	u, e1 := mxj.NewMapXml(doc)
	v, e2 := mxj.NewMapXml(doc, true)
	if e1 != nil || e2 != nil {
		det["err"] = fmt.Sprint(e1, e2)
		c.Violate("c14-decode-error", "NewMapXml failed on a well-formed document", det)
		return
	}
	w := &c14walk{c: c, cfg: cfg, textK: cfg.textK()}
	ap := cfg.AttrPrefix
	if cfg.Lower {
		ap = strings.ToLower(ap)
	}
	w.attrKeys = func(k string) bool { return ap != "" && strings.HasPrefix(k, ap) && k != cfg.textK() }
	w.walk("", "", map[string]interface{}(u), map[string]interface{}(v), false, "")
	if w.bad != "" {
		det["problem"] = w.bad
		class := "c14-cast"
		if strings.Contains(w.bad, "CastNanInf is off") || (strings.Contains(w.bad, "cast to fNaN") || strings.Contains(w.bad, "Inf,")) {
			class = "c14-naninf-spelling-cast"
		}
		c.Violate(class, "cast decoding is not 'same structure, each leaf independently replaced by what its text denotes'", det)
		return
	}
	anyChanged = w.changed
	if !cfg.CastNanInf {
		if _, jerr := v.Json(); jerr != nil {
			det["err"] = jerr.Error()
			c.Violate("c14-json-fails", "a cast-decoded Map cannot be converted to JSON", det)
		}
		if js, jerr := x2jw.DocToJson(string(doc), true); jerr != nil || !json.Valid([]byte(js)) {
			det["err"] = fmt.Sprint(jerr)
			c.Violate("c14-doctojson-fails", "x2j-wrapper.DocToJson(doc, true) failed", det)
		}
	}
	// ---- MapSeq pair ----
	us, e3 := mxj.NewMapXmlSeq(doc)
	vs, e4 := mxj.NewMapXmlSeq(doc, true)
	if e3 != nil || e4 != nil {
		det["err"] = fmt.Sprint(e3, e4)
		c.Violate("c14-decode-error", "NewMapXmlSeq failed on a well-formed document", det)
		return
	}
	ws := &c14walk{c: c, cfg: cfg, seq: true, textK: cfg.textK(), attrKeys: func(k string) bool { return false }}
	ws.walk("", "", map[string]interface{}(us), map[string]interface{}(vs), false, "")
	if ws.bad != "" {
		det["problem"] = ws.bad
		c.Violate("c14-cast-seq", "cast decoding with the sequence decoder is not 'same structure, leaves replaced by what their text denotes'", det)
		return
	}
	if anyChanged || ws.changed {
		c.NonTrivial(string(doc), cfg.String())
		if c.WantSample() && len(doc) < 200 {
			c.Sample(core.D{"config": cfg.String(), "doc": string(doc), "cast": jv.Show(v)})
		}
	}
}
