#!/bin/bash
# usage: tools/benign_check.sh <srcdir> [N]
# False-alarm test: every <srcdir>/Cnn/patch?.diff is a change that is meant to PRESERVE behaviour. Each is applied in a
# scratch copy (N parallel copies of /verif + worktrees of /repo under /tmp/benign-run); the repo's own suite must pass,
# then the owning check and every check anchored in a touched file is run (quick tier). Any non-zero exit is listed in
# .build/benign.log for inspection: it is either a change that is not benign after all or a false alarm of the machinery.
src=$1; N=${2:-4}
export GOFLAGS=-mod=mod GOPROXY=off GOSUMDB=off GOTOOLCHAIN=local
base=/tmp/benign-run
rm -rf $base; mkdir -p $base
git -C /repo worktree prune
for k in $(seq 1 $N); do
  d=$base/$k; mkdir -p $d
  git -C /repo worktree add -q --detach $d/repo HEAD || exit 2
  rsync -a --exclude .build --exclude evidence --exclude replays --exclude .git --exclude seeded --exclude bin /verif/ $d/verif/
  sed -i "s|=> /repo|=> $d/repo|" $d/verif/go.mod
  ( cd $d/verif && mkdir -p bin && go build -o bin/mxjcheck ./cmd/mxjcheck ) || exit 2
  : > $d/list
done
i=0; for p in $src/C*/patch?.diff; do k=$(( i % N + 1 )); echo $p >> $base/$k/list; i=$((i+1)); done
checks_for() { # owner + checks anchored in the touched files
  owner=$1; shift; set -- $(grep -h '^+++ b/' $1 | sed 's|+++ b/||' | sort -u)
  out="$owner C15 C17"
  for f in "$@"; do case $f in
    xml.go) out="$out C01 C02 C03 C05 C13 C14 C16 C18 C20";;
    xmlseq.go) out="$out C04 C05 C16";;
    json.go) out="$out C06 C13 C19";;
    keyvalues.go) out="$out C07 C08 C10 C12 C20";;
    leafnode.go) out="$out C09 C20";;
    updatevalues.go) out="$out C10 C20";;
    newmap.go|set.go|rename.go|remove.go|exists.go|misc.go) out="$out C11 C12";;
    files.go) out="$out C13 C16 C19";;
    escapechars.go|anyxml.go) out="$out C02 C03 C05 C16";;
    gob.go|mxj.go) out="$out C19";;
    setfieldsep.go|strict.go) out="$out C08 C10 C18";;
    x2j-wrapper/*|j2x/*|x2j/*) out="$out C20 C13 C14";;
  esac; done
  echo $out | tr ' ' '\n' | sort -u | tr '\n' ' '
}
for k in $(seq 1 $N); do
  (
    d=$base/$k; cd $d/verif
    for p in $(cat $d/list); do
      id=$(basename $(dirname $p))-$(basename $p .diff)
      ( cd $d/repo && git apply $p ) || { echo "$id PATCH-DOES-NOT-APPLY"; continue; }
      suite=$( cd $d/repo && go test -vet=off -count=1 . ./j2x ./x2j ./x2j-wrapper 2>&1 | grep -c '^ok' )
      if [ "$suite" != "3" ]; then echo "$id SUITE-FAILS (not usable)"; ( cd $d/repo && git checkout -q -- . ); continue; fi
      for chk in $(checks_for ${id:0:3} $p); do
        out=$(./bin/mxjcheck run $chk --tier quick 2>&1); rc=$?
        if [ $rc -eq 0 ]; then echo "$id $chk silent"; else echo "$id $chk ALARM rc=$rc"; echo "$out" | grep -E "^(VIOLATION|INCONCLUSIVE|HARNESS)|class=" | head -6 | sed 's/^/    /'; mkdir -p $base/keep/$id-$chk; cp replays/$chk-*.json $base/keep/$id-$chk/ 2>/dev/null; fi
      done
      ( cd $d/repo && git checkout -q -- . )
    done
  ) > $base/$k/log 2>&1 &
done
wait
mkdir -p /verif/.build
cat $base/*/log > /verif/.build/${BENIGN_LOG:-benign.log}
rm -rf /verif/.build/benign-replays; [ -d $base/keep ] && cp -r $base/keep /verif/.build/benign-replays
for k in $(seq 1 $N); do git -C /repo worktree remove --force $base/$k/repo; done
git -C /repo worktree prune; rm -rf $base
grep -c silent /verif/.build/${BENIGN_LOG:-benign.log}; grep -B0 -A6 ALARM /verif/.build/${BENIGN_LOG:-benign.log} | head -60
