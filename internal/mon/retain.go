package mon

import (
	"verif/internal/core"
)

// Retained-result monitor: bytes returned by an encoder belong to the caller.
// Every monitored encoder result is kept (slice + private copy) across the next
// few library calls and cases and must still be byte-identical when checked:
// an encoder that hands out a recycled or shared buffer is caught here.
type keptT struct {
	api string
	b   []byte
	cp  string
	idx int
}

var kept []keptT

func keep(c *core.Ctx, api string, b []byte) {
	if len(b) == 0 {
		return
	}
	kept = append(kept, keptT{api, b, string(b), c.Index})
}

// verifyKept checks all retained results; it keeps the most recent ones for the next case.
func verifyKept(c *core.Ctx, class string) {
	for _, k := range kept {
		c.Count("retained-results-verified")
		if string(k.b) != k.cp {
			c.Violate(class, "bytes returned earlier by "+k.api+" were modified by a later library call (result does not belong to the caller)",
				core.D{"api": k.api, "returned_in_case": k.idx, "was": k.cp, "now": string(k.b)})
		}
	}
	if len(kept) > 6 {
		kept = append([]keptT{}, kept[len(kept)-6:]...)
	}
}
