package mon

import (
	"bytes"
	"encoding/json"
	"fmt"
	"math"
	"math/rand"
	"os"
	"path/filepath"
	"strings"

	mxj "github.com/clbanning/mxj/v2"
	"github.com/clbanning/mxj/v2/j2x"
	"github.com/clbanning/mxj/v2/x2j"
	x2jw "github.com/clbanning/mxj/v2/x2j-wrapper"

	"verif/internal/core"
	"verif/internal/jv"
	"verif/internal/xt"
)

// C20 - differential monitor: the legacy packages agree with the core they wrap.
type c20 struct{}

func init() { register(c20{}) }

func (c20) Meta() core.Meta {
	return core.Meta{
		ID: "C20", Level: "exploration",
		Rule:        "case i = f(seed,i): a document from the C01 generator (default options) and a JSON value from the C03/C07 generators, a key that occurs at two depths on one branch when possible, plain/wildcard/indexed paths, sub-keys, key pairs and a new value. Every exported function of j2x, x2j and x2j-wrapper with a core counterpart is called on the same input and compared with the documented composition of core calls: byte equality for XML / compact JSON produced by the same encoder (safe-encoding flag passed through), JSON-value equality where only 'a JSON string' is documented, set equality for path lists, multiset equality for value lists, map equality for decoders; x2j-wrapper.PathsForKey / PathForKeyShortest == Map.PathsForKey / minimal length; ValuesFromKeyPath(m,p,true) == ValuesForPath(p), with false == the same minus attribute entries selected at wildcard steps; ValuesAtKeyPath == the parents of the last key (nil when no parent has it); reader / writer / bulk / file wrappers == the core readers on the same bytes. Non-trivial: the compared result is non-empty; distinct by hash(function, input).",
		Assumptions: []string{"x2j-wrapper.MapValue / DocValue have their own documented semantics (no core counterpart) and are not compared; x2j-wrapper.ValuesForKey / ValuesForTag are compared with their documented meaning: every value stored under the key at any depth, list values not expanded", "x2j-wrapper treats '-' as the attribute marker regardless of SetAttrPrefix (documented in its package text); default options are used"},
		Anchors:     []string{"j2x.MapToJson", "j2x.JsonToXml", "j2x.JsonReaderToXml", "j2x.JsonValuesForKeyPath", "j2x.JsonUpdateValsForPath", "j2x.JsonNewJson", "j2x.JsonLeafNodes", "x2j.XmlToJson", "x2j.XmlReaderToJson", "x2j.XmlValuesForPath", "x2j.XmlUpdateValsForPath", "x2j.XmlNewXml", "x2j.XmlLeafNodes", "x2j-wrapper.PathsForKey", "x2j-wrapper.hasKeyPath", "x2j-wrapper.PathForKeyShortest", "x2j-wrapper.ValuesFromKeyPath", "x2j-wrapper.valuesFromKeyPath", "x2j-wrapper.ValuesAtKeyPath", "x2j-wrapper.DocToJson", "x2j-wrapper.DocToMap", "x2j-wrapper.XmlMsgsFromReader", "x2j-wrapper.XmlMsgsFromFile", "x2j-wrapper.ToJson", "x2j-wrapper.Unmarshal"},
		Floors:      map[string]int64{"comparisons": 100000, "key-at-two-depths-on-a-branch": 300, "wildcard-path-with-attrs": 500, "safe-flag-matters": 300, "nonempty-results": 8000},
	}
}

func (c20) Cases(tier string, race bool) int {
	if race {
		return 0
	}
	if tier == "thorough" {
		return 300000
	}
	return 16000
}

var c20gen = xt.GenCfg{Names: []string{"a", "b", "c", "k", "x-y"}, Prefixes: []string{"", "", "", "ns"}, Texts: []string{"", "t", "1", "true", "<&>", " pad ", "é", "x y", "1.5", "x > y", "a >\n b"}, MaxKids: 4, MaxAttrs: 2, WideProb: 60}

func keysOnBranchTwice(v interface{}, seen map[string]bool, out map[string]bool) {
	switch t := v.(type) {
	case map[string]interface{}:
		for k, e := range t {
			if seen[k] {
				out[k] = true
			}
			had := seen[k]
			seen[k] = true
			keysOnBranchTwice(e, seen, out)
			seen[k] = had
		}
	case []interface{}:
		for _, e := range t {
			keysOnBranchTwice(e, seen, out)
		}
	}
}

// refFromKeyPath: reference for x2j-wrapper.ValuesFromKeyPath (no indexes; '-' keys skipped at wildcard steps unless getAttrs).
func refFromKeyPath(node interface{}, keys []string, getAttrs bool) []interface{} {
	if len(keys) == 0 {
		if l, ok := node.([]interface{}); ok {
			return append([]interface{}{}, l...)
		}
		return []interface{}{node}
	}
	k := keys[0]
	var out []interface{}
	step := func(m map[string]interface{}) {
		if k == "*" {
			for _, kk := range sortedKeys(m) {
				if strings.HasPrefix(kk, "-") && !getAttrs {
					continue
				}
				out = append(out, refFromKeyPath(m[kk], keys[1:], getAttrs)...)
			}
		} else if v, ok := m[k]; ok {
			out = append(out, refFromKeyPath(v, keys[1:], getAttrs)...)
		}
	}
	switch n := node.(type) {
	case map[string]interface{}:
		step(n)
	case []interface{}:
		for _, e := range n {
			if m, ok := e.(map[string]interface{}); ok {
				step(m)
			} else if k == "*" {
				out = append(out, refFromKeyPath(e, keys[1:], getAttrs)...)
			}
		}
	}
	return out
}

// refKeyNoExpand: every value stored under key k at any depth; a list value is one value.
func refKeyNoExpand(v interface{}, k string, out *[]interface{}) {
	switch t := v.(type) {
	case map[string]interface{}:
		if e, ok := t[k]; ok {
			*out = append(*out, e)
		}
		for _, kk := range sortedKeys(t) {
			refKeyNoExpand(t[kk], k, out)
		}
	case []interface{}:
		for _, e := range t {
			refKeyNoExpand(e, k, out)
		}
	}
}

func (c20) Case(c *core.Ctx) {
	r := c.R
	defer ResetDefaults()
	mxj.XMLEscapeChars(true)
	failedCalls(c, 8)
	doc := xt.Render(r, c20gen.Gen(r, 1+r.Intn(4)), xt.Style{})
	if r.Intn(4) == 0 {
		doc = append([]byte(xt.Prolog(r)), doc...)
	}
	mx, err := mxj.NewMapXml(doc)
	if err != nil {
		c.Harness("C20: decode failed: " + err.Error())
		return
	}
	nested := r.Intn(5) == 0
	g := jv.GenOpt{Keys: []string{"a", "b", "c", "k", "-x", "x-y"}, MaxFan: 3, WideProb: 60, ListInList: nested, EmptyConts: true, Nulls: true, Scalars: func(rr *rand.Rand) interface{} {
		switch rr.Intn(5) {
		case 0:
			return float64(rr.Intn(10))
		case 1:
			return rr.Intn(2) == 0
		default:
			return []string{"s", "<&>", "t", "1"}[rr.Intn(4)]
		}
	}}.Fresh()
	jroot := jv.M{"doc": g.Value(r, 1+r.Intn(4), false)}
	jb, _ := json.Marshal(jroot)
	mj, err := mxj.NewMapJson(jb)
	if err != nil {
		c.Harness("C20: json decode failed: " + err.Error())
		return
	}
	cmp := func(fn string, ok bool, det core.D) {
		c.Count("comparisons")
		c.Eval()
		if !ok {
			if det == nil {
				det = core.D{}
			}
			det["function"] = fn
			det["xml"] = string(doc)
			det["json"] = string(jb)
			c.Violate("c20-differs:"+fn, fn+" does not return what the documented composition of core functions returns", det)
		}
	}
	nonEmpty := func(fn, in string, n int) {
		if n > 0 {
			c.Count("nonempty-results")
			c.NonTrivial(fn, in)
		}
	}
	eqErr := func(a, b error) bool { return (a == nil) == (b == nil) }
	safe := r.Intn(2) == 0
	flags := []bool{safe}
	if r.Intn(5) == 0 {
		// the optional argument given zero times or twice: the wrappers pass on exactly what they were given
		flags = [][]bool{nil, {true, false}, {false, true}, {true, true}}[r.Intn(4)]
		safe = len(flags) == 1 && flags[0]
		c.Count("safe-flag-given-0-or-2-times")
	}
	if (safe || len(flags) == 2) && strings.ContainsAny(string(doc)+string(jb), "<>&") {
		c.Count("safe-flag-matters")
	}

	// ---------- conversion wrappers ----------
	{
		m1, e1 := x2j.XmlToMap(doc)
		cmp("x2j.XmlToMap", e1 == nil && jv.Equal(m1, map[string]interface{}(mx)), core.D{"observed": jv.Show(m1)})
		a, ea := x2j.MapToXml(mx)
		b, eb := mx.Xml()
		cmp("x2j.MapToXml", sameOut(a, ea, b, eb), core.D{"observed": string(a), "expected": string(b)})
		a, ea = x2j.XmlToJson(doc, flags...)
		b, eb = mx.Json(flags...)
		cmp("x2j.XmlToJson", sameOut(a, ea, b, eb), core.D{"safe_flags": fmt.Sprint(flags), "observed": string(a), "expected": string(b)})
		var w bytes.Buffer
		a, ea = x2j.XmlToJsonWriter(doc, &w, flags...)
		cmp("x2j.XmlToJsonWriter", ea == nil && bytes.Equal(a, b) && bytes.Equal(w.Bytes(), b), core.D{"safe_flags": fmt.Sprint(flags), "observed": string(a), "written": w.String(), "expected": string(b)})
		raw, a, ea := x2j.XmlReaderToJson(plainReader{bytes.NewReader(doc)}, flags...)
		_, wantRaw, _ := mxj.NewMapXmlReaderRaw(plainReader{bytes.NewReader(doc)})
		cmp("x2j.XmlReaderToJson", ea == nil && bytes.Equal(a, b) && bytes.Equal(raw, wantRaw), core.D{"observed": string(a), "raw": string(raw), "expected": string(b), "expected_raw": string(wantRaw)})
		w.Reset()
		raw, a, ea = x2j.XmlReaderToJsonWriter(plainReader{bytes.NewReader(doc)}, &w, flags...)
		cmp("x2j.XmlReaderToJsonWriter", ea == nil && bytes.Equal(a, b) && bytes.Equal(w.Bytes(), b) && bytes.Equal(raw, wantRaw), core.D{"observed": string(a), "written": w.String(), "expected": string(b)})

		m2, e2 := j2x.JsonToMap(jb)
		cmp("j2x.JsonToMap", e2 == nil && jv.Equal(m2, map[string]interface{}(mj)), nil)
		a, ea = j2x.MapToJson(mj, flags...)
		b, eb = mj.Json(flags...)
		cmp("j2x.MapToJson", sameOut(a, ea, b, eb), core.D{"safe_flags": fmt.Sprint(flags), "observed": string(a), "expected": string(b)})
		a, ea = j2x.JsonToXml(jb)
		b, eb = mj.Xml()
		cmp("j2x.JsonToXml", sameOut(a, ea, b, eb), core.D{"observed": string(a), "expected": string(b)})
		w.Reset()
		ea = j2x.JsonToXmlWriter(jb, &w)
		cmp("j2x.JsonToXmlWriter", eqErr(ea, eb) && (eb != nil || bytes.Equal(w.Bytes(), b)), core.D{"written": w.String(), "expected": string(b)})
		jraw, a, ea := j2x.JsonReaderToXml(plainReader{bytes.NewReader(jb)})
		cmp("j2x.JsonReaderToXml", sameOut(a, ea, b, eb) && bytes.Equal(jraw, jb), core.D{"observed": string(a), "raw": string(jraw), "expected": string(b)})
		w.Reset()
		ea = j2x.JsonReaderToXmlWriter(plainReader{bytes.NewReader(jb)}, &w)
		cmp("j2x.JsonReaderToXmlWriter", eqErr(ea, eb) && (eb != nil || bytes.Equal(w.Bytes(), b)), core.D{"written": w.String(), "expected": string(b)})

		cast := r.Intn(2) == 0
		mc, _ := mxj.NewMapXml(doc, cast)
		s, es := x2jw.DocToJson(string(doc), cast)
		b, eb = mc.Json()
		cmp("x2j-wrapper.DocToJson", eqErr(es, eb) && s == string(b), core.D{"cast": cast, "observed": s, "expected": string(b)})
		s, es = x2jw.ByteDocToJson(doc, cast)
		cmp("x2j-wrapper.ByteDocToJson", eqErr(es, eb) && s == string(b), core.D{"observed": s, "expected": string(b)})
		s, es = x2jw.DocToJsonIndent(string(doc), cast)
		// "prettified": which prefix / indent strings the wrapper passes to JsonIndent is not documented - the output must be
		// the compact encoding (same cast flag) with nothing but white space added outside strings
		b, eb = mc.Json()
		var cb bytes.Buffer
		cerr := json.Compact(&cb, []byte(s))
		cmp("x2j-wrapper.DocToJsonIndent", eqErr(es, eb) && (eb != nil || (cerr == nil && bytes.Equal(cb.Bytes(), b))), core.D{"observed": s, "expected_compact": string(b)})
		m3, e3 := x2jw.DocToMap(string(doc), cast)
		cmp("x2j-wrapper.DocToMap", e3 == nil && jv.Equal(m3, map[string]interface{}(mc)), nil)
		m3, e3 = x2jw.ByteDocToMap(doc, cast)
		cmp("x2j-wrapper.ByteDocToMap", e3 == nil && jv.Equal(m3, map[string]interface{}(mc)), nil)
		m3, e3 = x2jw.ToMap(plainReader{bytes.NewReader(doc)}, cast)
		cmp("x2j-wrapper.ToMap", e3 == nil && jv.Equal(m3, map[string]interface{}(mc)), nil)
		s, es = x2jw.ToJson(plainReader{bytes.NewReader(doc)}, cast)
		var v1, v2 interface{}
		j0, _ := mc.Json()
		cmp("x2j-wrapper.ToJson", es == nil && json.Unmarshal([]byte(s), &v1) == nil && json.Unmarshal(j0, &v2) == nil && jv.Equal(v1, v2), core.D{"observed": s, "expected": string(j0)})
		s, es = x2jw.ToJsonIndent(plainReader{bytes.NewReader(doc)}, cast)
		cmp("x2j-wrapper.ToJsonIndent", es == nil && json.Unmarshal([]byte(s), &v1) == nil && jv.Equal(v1, v2), core.D{"observed": s})
		um := map[string]interface{}{}
		eu := x2jw.Unmarshal(doc, &um)
		cmp("x2j-wrapper.Unmarshal(map)", eu == nil && jv.Equal(um, map[string]interface{}(mx)), core.D{"observed": jv.Show(um)})
		var us string
		eu = x2jw.Unmarshal(doc, &us)
		j1, _ := mx.Json()
		cmp("x2j-wrapper.Unmarshal(string)", eu == nil && us == string(j1), core.D{"observed": us, "expected": string(j1)})
	}

	// ---------- key / path / leaf / update / new-map wrappers ----------
	pool := []string{"a", "b", "c", "k", "x-y", "doc"}
	twice := map[string]bool{}
	keysOnBranchTwice(map[string]interface{}(mx), map[string]bool{}, twice)
	key := pool[r.Intn(len(pool))]
	if len(twice) > 0 && r.Intn(4) != 0 {
		key = sortedBoolKeys(twice)[r.Intn(len(twice))]
		c.Count("key-at-two-depths-on-a-branch")
	}
	for _, side := range []struct {
		name string
		m    mxj.Map
		raw  []byte
		xml  bool
	}{{"xml", mx, doc, true}, {"json", mj, jb, false}} {
		m := side.m
		segs := genPath(r, map[string]interface{}(m), pool, side.xml || !nested, true) // no indexed paths over lists nested in lists
		for i := range segs {
			if segs[i].name == "*" {
				segs[i].idx = -1
			}
		}
		path := pathString(segs)
		wild := hasWildcard(segs)
		var sample []interface{}
		if vs, e := m.ValuesForPath(path); e == nil {
			sample = vs
		}
		_, specs := genConds(r, ":", sample)
		if r.Intn(2) == 0 {
			specs = nil
		}
		wantP := sortedStrings(m.PathsForKey(key))
		wantShort := m.PathForKeyShortest(key)
		wantVK, ek := m.ValuesForKey(key, specs...)
		wantVP, ep := m.ValuesForPath(path, specs...)
		vpEq := func(got []interface{}, e error, want []interface{}, we error) bool {
			return eqErr(e, we) && jv.MultisetEqual(got, want) && (wild || jv.SeqEqual(got, want))
		}
		var ln []mxj.LeafNode
		var lv []interface{}
		var lp []string
		var e1, e2, e3 error
		if side.xml {
			ps, e := x2j.XmlPathsForTag(side.raw, key)
			cmp("x2j.XmlPathsForTag", e == nil && sortedStrings(ps) == wantP, core.D{"key": key, "observed": fmt.Sprint(ps), "expected": wantP})
			sh, e := x2j.XmlPathForTagShortest(side.raw, key)
			cmp("x2j.XmlPathForTagShortest", e == nil && len(strings.Split(sh, ".")) == len(strings.Split(wantShort, ".")) && (sh == "") == (wantShort == ""), core.D{"key": key, "observed": sh, "expected": wantShort})
			vk, e := x2j.XmlValuesForTag(side.raw, key, specs...)
			cmp("x2j.XmlValuesForTag", eqErr(e, ek) && jv.MultisetEqual(vk, wantVK), core.D{"key": key, "subkeys": fmt.Sprint(specs)})
			vp, e := x2j.XmlValuesForPath(side.raw, path, specs...)
			cmp("x2j.XmlValuesForPath", vpEq(vp, e, wantVP, ep), core.D{"path": path, "subkeys": fmt.Sprint(specs), "observed": jv.Show(vp), "expected": jv.Show(wantVP)})
			nonEmpty("x2j.XmlValuesForPath", string(side.raw)+path, len(vp))
			ln, e1 = x2j.XmlLeafNodes(side.raw)
			lv, e2 = x2j.XmlLeafValues(side.raw)
			lp, e3 = x2j.XmlLeafPath(side.raw)
		} else {
			ps, e := j2x.JsonPathsForKey(side.raw, key)
			cmp("j2x.JsonPathsForKey", e == nil && sortedStrings(ps) == wantP, core.D{"key": key, "observed": fmt.Sprint(ps), "expected": wantP})
			sh, e := j2x.JsonPathForKeyShortest(side.raw, key)
			cmp("j2x.JsonPathForKeyShortest", e == nil && len(strings.Split(sh, ".")) == len(strings.Split(wantShort, ".")) && (sh == "") == (wantShort == ""), core.D{"key": key, "observed": sh, "expected": wantShort})
			vk, e := j2x.JsonValuesForKey(side.raw, key, specs...)
			cmp("j2x.JsonValuesForKey", eqErr(e, ek) && jv.MultisetEqual(vk, wantVK), core.D{"key": key, "subkeys": fmt.Sprint(specs)})
			vp, e := j2x.JsonValuesForKeyPath(side.raw, path, specs...)
			cmp("j2x.JsonValuesForKeyPath", vpEq(vp, e, wantVP, ep), core.D{"path": path, "subkeys": fmt.Sprint(specs), "observed": jv.Show(vp), "expected": jv.Show(wantVP)})
			nonEmpty("j2x.JsonValuesForKeyPath", string(side.raw)+path, len(vp))
			ln, e1 = j2x.JsonLeafNodes(side.raw)
			lv, e2 = j2x.JsonLeafValues(side.raw)
			lp, e3 = j2x.JsonLeafPath(side.raw)
		}
		// x2j-wrapper.ValuesForKey / ValuesForTag: "all values in map associated with key" - every value stored under the key at any
		// depth, list values NOT expanded (its documented difference from the core function)
		{
			var wantAll []interface{}
			refKeyNoExpand(map[string]interface{}(m), key, &wantAll)
			gotAll := x2jw.ValuesForKey(map[string]interface{}(m), key)
			cmp("x2j-wrapper.ValuesForKey", jv.MultisetEqual(gotAll, wantAll) && (len(wantAll) > 0 || gotAll == nil), core.D{"key": key, "side": side.name, "observed": jv.Show(gotAll), "expected": jv.Show(wantAll)})
			if side.xml {
				gotT, et := x2jw.ValuesForTag(string(side.raw), key)
				cmp("x2j-wrapper.ValuesForTag", et == nil && jv.MultisetEqual(gotT, wantAll), core.D{"key": key, "observed": jv.Show(gotT), "expected": jv.Show(wantAll)})
			}
		}
		var gotL, wantL []string
		for _, l := range ln {
			gotL = append(gotL, l.Path+"="+jv.Fp(l.Value))
		}
		for _, l := range m.LeafNodes() {
			wantL = append(wantL, l.Path+"="+jv.Fp(l.Value))
		}
		cmp(side.name+":LeafNodes wrapper", e1 == nil && sortedStrings(gotL) == sortedStrings(wantL), core.D{"observed": sortedStrings(gotL), "expected": sortedStrings(wantL)})
		cmp(side.name+":LeafValues wrapper", e2 == nil && jv.MultisetEqual(lv, m.LeafValues()), nil)
		cmp(side.name+":LeafPath wrapper", e3 == nil && sortedStrings(lp) == sortedStrings(m.LeafPaths()), nil)

		// update: wrapper output == encoding of the updated Map
		upd := mxj.Map(jv.Copy(map[string]interface{}(m)).(jv.M))
		nv := key + ":NEW"
		upath := path
		if numIndexed(segs) > 0 {
			upath = strings.Join(func() []string {
				var o []string
				for _, s := range segs {
					o = append(o, s.name)
				}
				return o
			}(), ".")
		}
		_, eu := upd.UpdateValuesForPath(nv, upath, specs...)
		// new map
		pairs := []string{path + ":n0", key + ":n1.sub"}
		if wild || numIndexed(segs) > 0 {
			pairs = []string{path + ":n0", "doc:n2"}
		}
		nm, en := m.NewMap(pairs...)
		if side.xml {
			a, ea := x2j.XmlUpdateValsForPath(side.raw, nv, upath, specs...)
			b, eb := upd.Xml()
			if eu != nil {
				cmp("x2j.XmlUpdateValsForPath", ea != nil, nil)
			} else {
				cmp("x2j.XmlUpdateValsForPath", sameOut(a, ea, b, eb), core.D{"newVal": nv, "path": upath, "subkeys": fmt.Sprint(specs), "observed": string(a), "expected": string(b)})
			}
			a, ea = x2j.XmlNewXml(side.raw, pairs...)
			if en != nil {
				cmp("x2j.XmlNewXml", ea != nil, nil)
			} else {
				b, eb = nm.Xml()
				var t1, t2 []string
				t1, _ = tokenStream(a)
				t2, _ = tokenStream(b)
				// wildcard results enumerate in hash order: compare as token multisets then
				ok := sameOut(a, ea, b, eb) || (eb == nil && ea == nil && wild && sortedStrings(t1) == sortedStrings(t2))
				cmp("x2j.XmlNewXml", ok, core.D{"pairs": fmt.Sprint(pairs), "observed": string(a), "expected": string(b)})
			}
			a, ea = x2j.XmlNewJson(side.raw, pairs...)
			if en != nil {
				cmp("x2j.XmlNewJson", ea != nil, nil)
			} else {
				var v1 interface{}
				cmp("x2j.XmlNewJson", ea == nil && json.Unmarshal(a, &v1) == nil && c12equal(mapOf(nm), v1, wild), core.D{"pairs": fmt.Sprint(pairs), "observed": string(a), "expected": jv.Show(nm)})
			}
		} else {
			a, ea := j2x.JsonUpdateValsForPath(side.raw, nv, upath, specs...)
			b, eb := upd.Json()
			if eu != nil {
				cmp("j2x.JsonUpdateValsForPath", ea != nil, nil)
			} else {
				cmp("j2x.JsonUpdateValsForPath", sameOut(a, ea, b, eb), core.D{"newVal": nv, "path": upath, "observed": string(a), "expected": string(b)})
			}
			a, ea = j2x.JsonNewJson(side.raw, pairs...)
			if en != nil {
				cmp("j2x.JsonNewJson", ea != nil, nil)
			} else {
				var v1 interface{}
				cmp("j2x.JsonNewJson", ea == nil && json.Unmarshal(a, &v1) == nil && c12equal(mapOf(nm), v1, wild), core.D{"pairs": fmt.Sprint(pairs), "observed": string(a), "expected": jv.Show(nm)})
			}
			a, ea = j2x.JsonNewXml(side.raw, pairs...)
			if en != nil {
				cmp("j2x.JsonNewXml", ea != nil, nil)
			} else {
				b, eb = nm.Xml()
				t1, _ := tokenStream(a)
				t2, _ := tokenStream(b)
				cmp("j2x.JsonNewXml", (sameOut(a, ea, b, eb) || (eb == nil && ea == nil && wild && sortedStrings(t1) == sortedStrings(t2))), core.D{"pairs": fmt.Sprint(pairs), "observed": string(a), "expected": string(b)})
			}
		}

		// ---------- x2j-wrapper's own walkers ----------
		mm := map[string]interface{}(m)
		if !side.xml && !nested && r.Intn(4) == 0 {
			// hand-built Map in which one sub-map object is stored in two places: the wrapper's walkers against the core's
			mm = jv.Copy(mm).(jv.M)
			c.Add("walkers:aliased-submaps", int64(jv.Alias(r, mm, 1+r.Intn(2), nil)))
			wantP = sortedStrings(mxj.Map(mm).PathsForKey(key))
			wantShort = mxj.Map(mm).PathForKeyShortest(key)
			m = mxj.Map(mm)
		}
		ps := x2jw.PathsForKey(mm, key)
		cmp("x2j-wrapper.PathsForKey", sortedStrings(ps) == wantP, core.D{"map": jv.Show(mm), "key": key, "observed": sortedStrings(ps), "expected": wantP})
		nonEmpty("x2j-wrapper.PathsForKey", jv.Fp(mm)+key, len(ps))
		if !side.xml && r.Intn(6) == 0 {
			// the same map object asked again after it was changed in place: the answer follows the Map
			mm = jv.Copy(mm).(jv.M)
			x2jw.PathsForKey(mm, key)
			x2jw.PathForKeyShortest(mm, key)
			mm["added-later"] = jv.M{key: "late", "deeper": jv.M{key: jv.L{jv.M{key: 1.0}}}}
			for _, k2 := range sortedKeys(mm) {
				if k2 != "added-later" && r.Intn(2) == 0 {
					delete(mm, k2)
					break
				}
			}
			wantP = sortedStrings(mxj.Map(mm).PathsForKey(key))
			wantShort = mxj.Map(mm).PathForKeyShortest(key)
			m = mxj.Map(mm)
			ps2 := x2jw.PathsForKey(mm, key)
			cmp("x2j-wrapper.PathsForKey", sortedStrings(ps2) == wantP, core.D{"map": jv.Show(mm), "key": key, "observed": sortedStrings(ps2), "expected": wantP, "note": "second query on the same map object after it was changed in place"})
			c.Count("walkers:query-mutate-query")
		}
		sh := x2jw.PathForKeyShortest(mm, key)
		okS := (sh == "") == (wantShort == "") && len(strings.Split(sh, ".")) == len(strings.Split(wantShort, "."))
		if okS && sh != "" {
			okS = strings.Contains("|"+wantP+"|", "|"+sh+"|")
		}
		cmp("x2j-wrapper.PathForKeyShortest", okS, core.D{"map": jv.Show(mm), "key": key, "observed": sh, "expected_one_of_minimal_length": wantShort, "paths": wantP})
		if side.xml {
			ps2, e := x2jw.PathsForTag(string(side.raw), key)
			cmp("x2j-wrapper.PathsForTag", e == nil && sortedStrings(ps2) == wantP, core.D{"observed": sortedStrings(ps2), "expected": wantP})
			ps2, e = x2jw.BytePathsForTag(side.raw, key)
			cmp("x2j-wrapper.BytePathsForTag", e == nil && sortedStrings(ps2) == wantP, nil)
			s1, e := x2jw.PathForTagShortest(string(side.raw), key)
			cmp("x2j-wrapper.PathForTagShortest", e == nil && len(strings.Split(s1, ".")) == len(strings.Split(wantShort, ".")) && (s1 == "") == (wantShort == ""), core.D{"observed": s1, "expected": wantShort})
			s1, e = x2jw.BytePathForTagShortest(side.raw, key)
			cmp("x2j-wrapper.BytePathForTagShortest", e == nil && len(strings.Split(s1, ".")) == len(strings.Split(wantShort, ".")) && (s1 == "") == (wantShort == ""), nil)
		}
		// wildcard / plain paths without indexes
		wsegs := genPath(r, mm, pool, false, true)
		wpath := pathString(wsegs)
		wkeys := strings.Split(wpath, ".")
		attrsAtWild := false
		if hasWildcard(wsegs) && strings.Contains(jv.Fp(mm), `"-`) {
			attrsAtWild = true
			c.Count("wildcard-path-with-attrs")
		}
		all, _ := m.ValuesForPath(wpath)
		gotT := x2jw.ValuesFromKeyPath(mm, wpath, true)
		cmp("x2j-wrapper.ValuesFromKeyPath(getAttrs)", jv.MultisetEqual(gotT, all) && (len(all) > 0 || gotT == nil), core.D{"map": jv.Show(mm), "path": wpath, "observed": jv.Show(gotT), "expected": jv.Show(all)})
		wantF := refFromKeyPath(mm, wkeys, false)
		gotF := x2jw.ValuesFromKeyPath(mm, wpath)
		cmp("x2j-wrapper.ValuesFromKeyPath", jv.MultisetEqual(gotF, wantF), core.D{"map": jv.Show(mm), "path": wpath, "attrs_at_wildcard": attrsAtWild, "observed": jv.Show(gotF), "expected": jv.Show(wantF)})
		nonEmpty("x2j-wrapper.ValuesFromKeyPath", jv.Fp(mm)+wpath, len(gotF))
		if side.xml {
			gt, e := x2jw.ValuesFromTagPath(string(side.raw), wpath, true)
			cmp("x2j-wrapper.ValuesFromTagPath", e == nil && jv.MultisetEqual(gt, all), nil)
			gt, e = x2jw.ReaderValuesFromTagPath(plainReader{bytes.NewReader(side.raw)}, wpath)
			cmp("x2j-wrapper.ReaderValuesFromTagPath", e == nil && jv.MultisetEqual(gt, wantF), nil)
			gt, e = x2jw.ReaderValuesFromTagPath(plainReader{bytes.NewReader(side.raw)}, wpath, true)
			cmp("x2j-wrapper.ReaderValuesFromTagPath(attrs)", e == nil && jv.MultisetEqual(gt, all), nil)
		}
		// ValuesAtKeyPath: the parents of the last key; nil when no parent has it
		for _, ga := range []bool{false, true} {
			var parents []interface{}
			if len(wkeys) > 1 {
				parents = refFromKeyPath(mm, wkeys[:len(wkeys)-1], ga)
			} else {
				parents = []interface{}{mm}
			}
			last := wkeys[len(wkeys)-1]
			has := last == "*" && len(parents) > 0
			for _, p := range parents {
				if pm, ok := p.(map[string]interface{}); ok {
					if _, ok := pm[last]; ok {
						has = true
					}
				}
			}
			gotA := x2jw.ValuesAtKeyPath(mm, wpath, ga)
			if has {
				cmp("x2j-wrapper.ValuesAtKeyPath", jv.MultisetEqual(gotA, parents), core.D{"map": jv.Show(mm), "path": wpath, "getAttrs": ga, "observed": jv.Show(gotA), "expected": jv.Show(parents)})
			} else {
				cmp("x2j-wrapper.ValuesAtKeyPath", gotA == nil, core.D{"map": jv.Show(mm), "path": wpath, "getAttrs": ga, "observed": jv.Show(gotA), "expected": "nil"})
			}
			if side.xml && ga {
				gt, e := x2jw.ValuesAtTagPath(string(side.raw), wpath, ga)
				cmp("x2j-wrapper.ValuesAtTagPath", e == nil && jv.MultisetEqual(gt, gotA), nil)
			}
		}
	}

	// ---------- bulk / file wrappers ----------
	if c.Index%3 == 0 {
		var docs [][]byte
		var stream []byte
		for i, n := 0, 1+r.Intn(3); i < n; i++ {
			d := xt.Render(r, c20gen.Gen(r, r.Intn(3)), xt.Style{})
			docs = append(docs, d)
			stream = append(stream, d...)
			stream = append(stream, []string{"", "\n", " "}[r.Intn(3)]...)
		}
		if r.Intn(25) == 0 {
			// one message of 70..140 KiB without a single line break (longer than any line-oriented buffer)
			var b bytes.Buffer
			b.WriteString("<big>")
			rows := 1800 + r.Intn(1800)
			if r.Intn(2) == 0 {
				rows = autoInt(r, 4096, 300000, 65536)/28 + 3 // just beyond a size the tree itself spells out
			}
			for i, n := 0, rows; i < n; i++ {
				fmt.Fprintf(&b, `<row id="%d">some text %d</row>`, i, i)
			}
			b.WriteString("</big>")
			d := b.Bytes()
			docs = append(docs, d)
			stream = append(stream, d...)
			c.Count("bulk:message-over-64KiB-on-one-line")
		}
		var want []string
		for _, d := range docs {
			m, _ := mxj.NewMapXml(d)
			want = append(want, jv.Fp(m))
		}
		var got []string
		e := x2jw.XmlMsgsFromReader(plainReader{bytes.NewReader(stream)}, func(m map[string]interface{}) bool { got = append(got, jv.Fp(m)); return true }, func(error) bool { got = append(got, "ERR"); return false })
		cmp("x2j-wrapper.XmlMsgsFromReader", e == nil && strings.Join(got, "|") == strings.Join(want, "|"), core.D{"stream": string(stream), "observed": fmt.Sprint(got), "expected": fmt.Sprint(want)})
		var gotJ []string
		e = x2jw.XmlMsgsFromReaderAsJson(plainReader{bytes.NewReader(stream)}, func(s string) bool {
			var v interface{}
			json.Unmarshal([]byte(s), &v)
			gotJ = append(gotJ, jv.Fp(v))
			return true
		}, func(error) bool { gotJ = append(gotJ, "ERR"); return false })
		cmp("x2j-wrapper.XmlMsgsFromReaderAsJson", e == nil && strings.Join(gotJ, "|") == strings.Join(want, "|"), core.D{"stream": string(stream), "observed": fmt.Sprint(gotJ), "expected": fmt.Sprint(want)})
		if r.Intn(4) == 0 {
			// an ill-formed message in the middle, the error handler says "go on": what is delivered afterwards is decoded
			// as before (no recast was asked for: every leaf is a string)
			bad := append(append(append([]byte{}, docs[0]...), []byte("<bad><x></bad>")...), []byte("<n><v>12</v><w>true</w><f>1.5</f></n>")...)
			allStrings := true
			var walk func(v interface{})
			walk = func(v interface{}) {
				switch t := v.(type) {
				case map[string]interface{}:
					for _, e := range t {
						walk(e)
					}
				case []interface{}:
					for _, e := range t {
						walk(e)
					}
				case string:
				default:
					allStrings = false
				}
			}
			nmsg, nerr := 0, 0
			e := x2jw.XmlMsgsFromReader(plainReader{bytes.NewReader(bad)}, func(m map[string]interface{}) bool { nmsg++; walk(m); return true }, func(error) bool { nerr++; return nerr < 20 })
			cmp("x2j-wrapper.XmlMsgsFromReader (after an ill-formed message)", allStrings && nerr > 0 && nmsg >= 1, core.D{"stream": string(bad), "messages": nmsg, "errors": nerr, "all_leaves_strings": allStrings, "err": fmt.Sprint(e)})
			c.Count("bulk:resumed-after-ill-formed-message")
		}
		if r.Intn(4) == 0 {
			// a message that cannot be converted (NaN cast to a float has no JSON form): the error handler is told, and when it
			// says stop the function returns that error - for the Map form nothing fails, all three messages arrive
			mxj.CastNanInf(true)
			x2jw.CastNanInf(true)
			nanStream := []byte("<a>1</a><n><v>NaN</v></n><b>2</b>")
			var gotJ []string
			nerr := 0
			e := x2jw.XmlMsgsFromReaderAsJson(plainReader{bytes.NewReader(nanStream)}, func(s string) bool { gotJ = append(gotJ, s); return true }, func(error) bool { nerr++; return false }, true)
			_, wantErr := mxj.Map{"v": math.NaN()}.Json()
			cmp("x2j-wrapper.XmlMsgsFromReaderAsJson (message without a JSON form)", wantErr != nil && nerr == 1 && e != nil && len(gotJ) == 1, core.D{"stream": string(nanStream), "messages": fmt.Sprint(gotJ), "error_handler_calls": nerr, "returned_error": fmt.Sprint(e)})
			nm := 0
			e = x2jw.XmlMsgsFromReader(plainReader{bytes.NewReader(nanStream)}, func(m map[string]interface{}) bool { nm++; return true }, func(error) bool { return false }, true)
			cmp("x2j-wrapper.XmlMsgsFromReader (NaN cast)", e == nil && nm == 3, core.D{"stream": string(nanStream), "messages": nm, "returned_error": fmt.Sprint(e)})
			mxj.CastNanInf(false)
			x2jw.CastNanInf(false)
			c.Count("bulk:message-without-json-form")
		}
		dir := c19scratch()
		fn := filepath.Join(dir, "c20.xml")
		os.WriteFile(fn, stream, 0o644)
		got = nil
		e = x2jw.XmlMsgsFromFile(fn, func(m map[string]interface{}) bool { got = append(got, jv.Fp(m)); return true }, func(error) bool { got = append(got, "ERR"); return false })
		cmp("x2j-wrapper.XmlMsgsFromFile", e == nil && strings.Join(got, "|") == strings.Join(want, "|"), core.D{"stream": string(stream), "observed": fmt.Sprint(got), "expected": fmt.Sprint(want)})
		gotJ = nil
		e = x2jw.XmlMsgsFromFileAsJson(fn, func(s string) bool {
			var v interface{}
			json.Unmarshal([]byte(s), &v)
			gotJ = append(gotJ, jv.Fp(v))
			return true
		}, func(error) bool { gotJ = append(gotJ, "ERR"); return false })
		cmp("x2j-wrapper.XmlMsgsFromFileAsJson", e == nil && strings.Join(gotJ, "|") == strings.Join(want, "|"), core.D{"stream": string(stream), "observed": fmt.Sprint(gotJ), "expected": fmt.Sprint(want)})
		os.Remove(fn)
		// reader wrappers called repeatedly on ONE multi-document reader: each call must leave the reader where the core would
		{
			var gotX, gotW, gotT []string
			rd := plainReader{bytes.NewReader(stream)}
			for i := 0; i < len(docs)+2; i++ {
				_, j, e := x2j.XmlReaderToJson(rd)
				if e != nil {
					gotX = append(gotX, "END")
					break
				}
				var v interface{}
				json.Unmarshal(j, &v)
				gotX = append(gotX, jv.Fp(v))
			}
			rd = plainReader{bytes.NewReader(stream)}
			for i := 0; i < len(docs)+2; i++ {
				var w bytes.Buffer
				_, _, e := x2j.XmlReaderToJsonWriter(rd, &w)
				if e != nil {
					gotW = append(gotW, "END")
					break
				}
				var v interface{}
				json.Unmarshal(w.Bytes(), &v)
				gotW = append(gotW, jv.Fp(v))
			}
			rd = plainReader{bytes.NewReader(stream)}
			for i := 0; i < len(docs)+2; i++ {
				s, e := x2jw.ToJson(rd)
				if e != nil || s == "" {
					gotT = append(gotT, "END")
					break
				}
				var v interface{}
				json.Unmarshal([]byte(s), &v)
				gotT = append(gotT, jv.Fp(v))
			}
			wantSeq := strings.Join(append(append([]string{}, want...), "END"), "|")
			cmp("x2j.XmlReaderToJson (same reader, repeated)", strings.Join(gotX, "|") == wantSeq, core.D{"stream": string(stream), "observed": fmt.Sprint(gotX), "expected": wantSeq})
			cmp("x2j.XmlReaderToJsonWriter (same reader, repeated)", strings.Join(gotW, "|") == wantSeq, core.D{"stream": string(stream), "observed": fmt.Sprint(gotW), "expected": wantSeq})
			cmp("x2j-wrapper.ToJson (same reader, repeated)", strings.Join(gotT, "|") == wantSeq, core.D{"stream": string(stream), "observed": fmt.Sprint(gotT), "expected": wantSeq})
			// JSON side
			var jstream []byte
			var jwant []string
			for i, n := 0, 1+r.Intn(3); i < n; i++ {
				mm := map[string]interface{}{"k" + fmt.Sprint(i): []string{"v", "<&>", "x y"}[r.Intn(3)], "n": float64(i)}
				b, _ := json.Marshal(mm)
				jstream = append(jstream, b...)
				jstream = append(jstream, []string{"", "\n", " "}[r.Intn(3)]...)
				x, _ := mxj.Map(mm).Xml()
				jwant = append(jwant, string(x))
			}
			var gotJ1, gotJ2 []string
			jr := plainReader{bytes.NewReader(jstream)}
			for i := 0; i < len(jwant)+2; i++ {
				_, x, e := j2x.JsonReaderToXml(jr)
				if e != nil {
					gotJ1 = append(gotJ1, "END")
					break
				}
				gotJ1 = append(gotJ1, string(x))
			}
			jr = plainReader{bytes.NewReader(jstream)}
			for i := 0; i < len(jwant)+2; i++ {
				var w bytes.Buffer
				if e := j2x.JsonReaderToXmlWriter(jr, &w); e != nil {
					gotJ2 = append(gotJ2, "END")
					break
				}
				gotJ2 = append(gotJ2, w.String())
			}
			jwantSeq := strings.Join(append(append([]string{}, jwant...), "END"), "|")
			cmp("j2x.JsonReaderToXml (same reader, repeated)", strings.Join(gotJ1, "|") == jwantSeq, core.D{"stream": string(jstream), "observed": fmt.Sprint(gotJ1), "expected": jwantSeq})
			cmp("j2x.JsonReaderToXmlWriter (same reader, repeated)", strings.Join(gotJ2, "|") == jwantSeq, core.D{"stream": string(jstream), "observed": fmt.Sprint(gotJ2), "expected": jwantSeq})
		}
		bb := bytes.NewBuffer(append([]byte{}, docs[0]...))
		m0, e0 := x2jw.XmlBufferToMap(bb)
		cmp("x2j-wrapper.XmlBufferToMap", e0 == nil && jv.Fp(m0) == want[0], nil)
		bb = bytes.NewBuffer(append([]byte{}, docs[0]...))
		s0, e0 := x2jw.XmlBufferToJson(bb)
		var v0 interface{}
		json.Unmarshal([]byte(s0), &v0)
		cmp("x2j-wrapper.XmlBufferToJson", e0 == nil && jv.Fp(v0) == want[0], nil)
	}
	if c.WantSample() && len(doc) < 200 {
		c.Sample(core.D{"xml": string(doc), "json": string(jb), "key": key})
	}
}

func mapOf(m mxj.Map) interface{} { return map[string]interface{}(m) }

// sameOut: both fail, or both succeed with identical bytes (what an encoder returns beside an error is not compared).
func sameOut(a []byte, ea error, b []byte, eb error) bool {
	if eb != nil {
		return ea != nil
	}
	return ea == nil && bytes.Equal(a, b)
}
