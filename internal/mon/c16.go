package mon

import (
	"bytes"
	"encoding/json"
	"errors"
	"fmt"
	"math/rand"
	"os"
	"path/filepath"
	"reflect"
	"sort"
	"strings"

	mxj "github.com/clbanning/mxj/v2"

	"verif/internal/core"
	"verif/internal/jv"
	"verif/internal/xt"
)

// C16 - encoders are deterministic and all their variants agree.
type c16 struct{}

func init() { register(c16{}) }

func (c16) Meta() core.Meta {
	return core.Meta{
		ID: "C16", Level: "exploration",
		Rule:        "case i = f(seed,i): a content drawn from the C02 domain (Map decoded from a generated document), the C03 domain (JSON-shaped value with 2..40 keys/attributes per node) or the C04 domain (MapSeq decoded from a generated document); 6..20 structurally equal copies are built with different insertion orders, make() capacities, deletions of temporary keys, and via Copy / JSON / gob; every encoder entry point (Xml, XmlIndent, Json, Json(safe), JsonIndent, StringIndent, MapSeq.Xml/XmlIndent) is called on every copy and repeatedly. Monitors: all byte strings for one content identical; attributes and child elements in ascending key order according to the std tokenizer; indented == compact as normalised token streams; Writer forms issue exactly one Write with exactly the returned bytes and surface a failing sink's error, Raw forms return the bytes; Maps.XmlString/XmlStringIndent/JsonString/JsonStringIndent (plain and safe) and the File forms equal the per-Map encodings joined by blanks only; retained outputs stay intact. Diversity evidence: the distinct key-iteration orders observed on the input maps are counted. Non-trivial: some node has >=3 keys; distinct by hash(content).",
		Assumptions: []string{"Go re-randomises map iteration on every range; the monitor records the orders it saw rather than assuming them"},
		Anchors:     []string{"Map.Xml", "Map.XmlIndent", "Map.XmlWriter", "Map.XmlIndentWriter", "MapSeq.Xml", "MapSeq.XmlIndent", "MapSeq.XmlWriter", "MapSeq.XmlIndentWriter", "Map.Json", "Map.JsonIndent", "Map.JsonWriter", "Map.JsonWriterRaw", "Map.JsonIndentWriter", "Map.JsonIndentWriterRaw", "Maps.XmlString", "Maps.XmlStringIndent", "Maps.JsonString", "Maps.JsonStringIndent", "Maps.XmlFile", "Maps.XmlFileIndent", "Maps.JsonFile", "Maps.JsonFileIndent", "Map.StringIndent", "attrList.Less", "elemList.Less", "elemListSeq.Less"},
		Floors:      map[string]int64{"encodings-compared": 100000, "writer-calls-logged": 5000, "failing-sink": 1000, "maps-forms": 500, "order-checked-elements": 20000},
		SetFloors:   map[string]int64{"iteration-orders": 500},
	}
}

func (c16) Cases(tier string, race bool) int {
	if race {
		return 0
	}
	if tier == "thorough" {
		return 60000
	}
	return 4000
}

// rebuild returns a structurally equal copy built in a different way.
func rebuild(r *rand.Rand, v interface{}) interface{} {
	switch t := v.(type) {
	case map[string]interface{}:
		keys := make([]string, 0, len(t))
		for k := range t {
			keys = append(keys, k)
		}
		sort.Strings(keys)
		r.Shuffle(len(keys), func(i, j int) { keys[i], keys[j] = keys[j], keys[i] })
		var m map[string]interface{}
		switch r.Intn(4) {
		case 0:
			m = map[string]interface{}{}
		case 1:
			m = make(map[string]interface{}, len(t))
		case 2:
			m = make(map[string]interface{}, 8*len(t)+r.Intn(64))
		default:
			m = make(map[string]interface{}, 1)
		}
		junk := r.Intn(3) == 0
		if junk {
			for i := 0; i < 1+r.Intn(20); i++ {
				m[fmt.Sprintf("\x00tmp%d", i)] = i
			}
		}
		for _, k := range keys {
			m[k] = rebuild(r, t[k])
		}
		if junk {
			for k := range m {
				if strings.HasPrefix(k, "\x00tmp") {
					delete(m, k)
				}
			}
		}
		return m
	case []interface{}:
		l := make([]interface{}, 0, len(t)+r.Intn(4))
		for _, e := range t {
			l = append(l, rebuild(r, e))
		}
		return l
	}
	return v
}

// iterOrder records the order in which one range over the largest map of v enumerates its keys.
func iterOrder(v interface{}) string {
	var best map[string]interface{}
	var walk func(x interface{})
	walk = func(x interface{}) {
		switch t := x.(type) {
		case map[string]interface{}:
			if len(t) > len(best) {
				best = t
			}
			for _, e := range t {
				walk(e)
			}
		case []interface{}:
			for _, e := range t {
				walk(e)
			}
		}
	}
	walk(v)
	var b strings.Builder
	for k := range best {
		b.WriteString(k)
		b.WriteByte(0)
	}
	return b.String()
}

type logWriter struct {
	calls [][]byte
	fail  error
}

func (w *logWriter) Write(p []byte) (int, error) {
	w.calls = append(w.calls, append([]byte{}, p...))
	if w.fail != nil {
		return 0, w.fail
	}
	return len(p), nil
}

var errSink = errors.New("sink failure injected by the monitor")

func maxKeys(v interface{}) int {
	n := 0
	switch t := v.(type) {
	case map[string]interface{}:
		n = len(t)
		for _, e := range t {
			if x := maxKeys(e); x > n {
				n = x
			}
		}
	case []interface{}:
		for _, e := range t {
			if x := maxKeys(e); x > n {
				n = x
			}
		}
	}
	return n
}

// checkAscending: attributes ascending by name; child elements' names non-decreasing (Map encoder).
func checkAscending(n *xt.Node) (string, int) {
	cnt := 0
	bad := ""
	n.Walk(func(e *xt.Node) {
		cnt++
		for i := 1; i < len(e.Attrs); i++ {
			if xt.QN(e.Attrs[i-1].Prefix, e.Attrs[i-1].Local) > xt.QN(e.Attrs[i].Prefix, e.Attrs[i].Local) {
				bad = "attributes of <" + e.Name() + "> are not in ascending order"
			}
		}
		ks := e.Kids()
		for i := 1; i < len(ks); i++ {
			if ks[i-1].Name() > ks[i].Name() {
				bad = "children of <" + e.Name() + "> are not in ascending key order: " + ks[i-1].Name() + " before " + ks[i].Name()
			}
		}
	})
	return bad, cnt
}

func (c16) Case(c *core.Ctx) {
	r := c.R
	mxj.XMLEscapeChars(true)
	defer ResetDefaults()
	if c.R.Intn(8) == 0 {
		// the other spelling of empty elements (<a></a> instead of <a/>): documented to change nothing else
		mxj.XmlGoEmptyElemSyntax()
		c.Count("option:go-empty-element-syntax")
	}
	defer verifyKept(c, "c16-retained-output-changed")
	c.Eval()
	failedCalls(c, 8)

	var content map[string]interface{}
	mixedRootList := false
	isSeq := false
	domain := ""
	switch r.Intn(3) {
	case 0:
		g := c02gen
		g.MaxAttrs, g.WideProb = 6, 15
		doc := xt.Render(r, g.Gen(r, 1+r.Intn(4)), xt.Style{})
		m, err := mxj.NewMapXml(doc)
		if err != nil {
			c.Harness("C16: decode of generated doc failed: " + err.Error())
			return
		}
		content, domain = m, "C02"
	case 1:
		var st c03stats
		m := map[string]interface{}{}
		for j, n := 0, 2+r.Intn(12); j < n; j++ {
			m[c03keys[r.Intn(len(c03keys))]+fmt.Sprint(r.Intn(6))] = c03gen(r, 3, &st)
		}
		if r.Intn(3) == 0 {
			for j, n := 0, 10+r.Intn(30); j < n; j++ {
				m["-at"+fmt.Sprint(j)] = c03strs[r.Intn(len(c03strs))]
			}
			m = map[string]interface{}{"root": m}
		}
		if st.nullAttr {
			return // a null attribute is an unspecified cell of the encoders (C03)
		}
		if r.Intn(10) == 0 {
			// a single key holding a list with a member that is not a map: no variant may take the key for the root
			l := []interface{}{map[string]interface{}{"a": "1"}, []interface{}{nil, "s", 2.5}[r.Intn(3)], map[string]interface{}{"b": c03strs[r.Intn(len(c03strs))]}}
			r.Shuffle(len(l), func(i, j int) { l[i], l[j] = l[j], l[i] })
			m = map[string]interface{}{"items": l}
			mixedRootList = true
			c.Count("content:single-key-list-with-non-map-member")
		}
		if r.Intn(4) == 0 {
			// equal Maps "however they were built": one sub-map object stored in two places vs. the tree-shaped copies
			c.Add("content:aliased-submaps", int64(jv.Alias(r, m, 1+r.Intn(2), func(k string) bool { return strings.HasPrefix(k, "-") || k == "#text" })))
		}
		content, domain = m, "C03"
	default:
		g := c04gen
		g.WideProb = 20
		doc := xt.Render(r, g.Gen(r, 1+r.Intn(4)), xt.Style{NoWS: true})
		ms, err := mxj.NewMapXmlSeq(doc)
		if err != nil {
			c.Harness("C16: seq decode of generated doc failed: " + err.Error())
			return
		}
		content, domain, isSeq = ms, "C04", true
	}
	if len(content) == 1 {
		for _, v := range content {
			if _, isList := v.([]interface{}); isList && !mixedRootList {
				return // several roots: excluded from the C03 domain
			}
		}
	}
	cfp := jv.Fp(content)
	if maxKeys(content) >= 3 {
		c.NonTrivial(cfp)
	}
	indent := []string{"  ", "\t", " ", ""}[r.Intn(4)]
	prefix := []string{"", " ", "\t", "", "\t ", " \t", "\t \t"}[r.Intn(7)] // (mixed blanks: the indent string may occur inside the prefix)
	if !isSeq && r.Intn(6) == 0 {
		// pad so that the compact XML is exactly a multiple of 4096 bytes (buffer boundaries in the Writer forms)
		content["pad"] = "p"
		if x0, e0 := mxj.Map(content).Xml(); e0 == nil {
			blk := autoBlock(r)
			content["pad"] = strings.Repeat("p", 1+(blk-len(x0)%blk)%blk)
			if r.Intn(3) == 0 {
				// ... or one byte more, the last character being a two-byte rune that straddles the boundary
				content["pad"] = strings.Repeat("p", (blk-len(x0)%blk)%blk) + "é"
			}
			c.Count("output-multiple-of-4096")
		}
	}

	type encT struct {
		name string
		f    func(m map[string]interface{}) ([]byte, error)
	}
	var encs []encT
	if isSeq {
		encs = []encT{
			{"MapSeq.Xml", func(m map[string]interface{}) ([]byte, error) { return mxj.MapSeq(m).Xml() }},
			{"MapSeq.XmlIndent", func(m map[string]interface{}) ([]byte, error) { return mxj.MapSeq(m).XmlIndent(prefix, indent) }},
			{"MapSeq.StringIndent", func(m map[string]interface{}) ([]byte, error) { return []byte(mxj.MapSeq(m).StringIndent()), nil }},
		}
	} else {
		encs = []encT{
			{"Map.Xml", func(m map[string]interface{}) ([]byte, error) { return mxj.Map(m).Xml() }},
			{"Map.XmlIndent", func(m map[string]interface{}) ([]byte, error) { return mxj.Map(m).XmlIndent(prefix, indent) }},
			{"Map.Xml(root)", func(m map[string]interface{}) ([]byte, error) { return mxj.Map(m).Xml("top") }},
			{"Map.Json", func(m map[string]interface{}) ([]byte, error) { return mxj.Map(m).Json() }},
			{"Map.Json(safe)", func(m map[string]interface{}) ([]byte, error) { return mxj.Map(m).Json(true) }},
			{"Map.JsonIndent", func(m map[string]interface{}) ([]byte, error) { return mxj.Map(m).JsonIndent(prefix, indent) }},
			{"Map.StringIndent", func(m map[string]interface{}) ([]byte, error) { return []byte(mxj.Map(m).StringIndent()), nil }},
			{"AnyXml", func(m map[string]interface{}) ([]byte, error) { return mxj.AnyXml(m) }},
		}
	}
	// copies built differently
	ncopies := 6 + r.Intn(15)
	copies := []map[string]interface{}{content}
	for i := 0; i < ncopies; i++ {
		var cp map[string]interface{}
		how := r.Intn(6)
		switch {
		case how == 0 && !isSeq:
			if m2, err := mxj.Map(content).Copy(); err == nil && reflect.DeepEqual(map[string]interface{}(m2), content) {
				cp = m2
			}
		case how == 1 && !isSeq:
			if jb, err := json.Marshal(content); err == nil {
				var m2 map[string]interface{}
				if json.Unmarshal(jb, &m2) == nil && reflect.DeepEqual(m2, content) {
					cp = m2
				}
			}
		case how == 2 && !isSeq:
			if gb, err := mxj.Map(content).Gob(); err == nil {
				if m2, err := mxj.NewMapGob(gb); err == nil && reflect.DeepEqual(map[string]interface{}(m2), content) {
					cp = m2
				}
			}
		}
		if cp == nil {
			cp = rebuild(r, content).(map[string]interface{})
		}
		copies = append(copies, cp)
	}
	ref := map[string][]byte{}
	for ci, cp := range copies {
		c.Distinct("iteration-orders", core.HashStr(iterOrder(cp)))
		reps := 1
		if ci == 0 {
			reps = 3
		}
		for rep := 0; rep < reps; rep++ {
			for _, e := range encs {
				out, err := e.f(cp)
				if err != nil {
					c.Violate("c16-encode-error", e.name+" failed", core.D{"domain": domain, "encoder": e.name, "content": jv.Show(content), "err": err.Error()})
					return
				}
				keep(c, e.name, out)
				c.Count("encodings-compared")
				if first, ok := ref[e.name]; !ok {
					ref[e.name] = append([]byte{}, out...)
				} else if !bytes.Equal(first, out) {
					c.Violate("c16-nondeterministic:"+e.name, e.name+" produced different bytes for equal content", core.D{"domain": domain, "encoder": e.name, "content": jv.Show(content), "first": string(first), "other": string(out), "copy": ci, "repeat": rep})
					return
				}
			}
		}
	}
	if c.WantSample() && len(cfp) < 300 {
		c.Sample(core.D{"domain": domain, "content": cfp, "copies": len(copies), "encoders": len(encs)})
	}
	// order + indented == compact
	if !isSeq {
		x, xi := ref["Map.Xml"], ref["Map.XmlIndent"]
		if tree, _, err := xt.Parse(x, false); err == nil {
			bad, n := checkAscending(tree)
			c.Add("order-checked-elements", int64(n))
			if bad != "" {
				c.Violate("c16-order", "Map.Xml: "+bad, core.D{"content": jv.Show(content), "xml": string(x)})
			}
		} else {
			c.Violate("c16-illformed", "Map.Xml output rejected by the observer", core.D{"content": jv.Show(content), "xml": string(x), "err": err.Error()})
		}
		ts1, e1 := tokenStream(x)
		ts2, e2 := tokenStream(xi)
		if e1 != nil || e2 != nil || firstDiff(ts1, ts2) != "" {
			c.Violate("c16-indent-differs", "Map.XmlIndent differs from Map.Xml by more than inter-element whitespace", core.D{"content": jv.Show(content), "compact": string(x), "indented": string(xi), "diff": firstDiff(ts1, ts2)})
		}
		var v1, v2 interface{}
		if json.Unmarshal(ref["Map.Json"], &v1) != nil || json.Unmarshal(ref["Map.JsonIndent"], &v2) != nil || !jv.Equal(v1, v2) {
			c.Violate("c16-jsonindent-differs", "JsonIndent differs from Json by more than whitespace", core.D{"compact": string(ref["Map.Json"]), "indented": string(ref["Map.JsonIndent"])})
		}
	} else {
		ts1, e1 := tokenStream(ref["MapSeq.Xml"])
		ts2, e2 := tokenStream(ref["MapSeq.XmlIndent"])
		if e1 != nil || e2 != nil || firstDiff(ts1, ts2) != "" {
			c.Violate("c16-indent-differs", "MapSeq.XmlIndent differs from MapSeq.Xml by more than inter-element whitespace", core.D{"compact": string(ref["MapSeq.Xml"]), "indented": string(ref["MapSeq.XmlIndent"]), "diff": firstDiff(ts1, ts2)})
		}
		// a MapSeq that went through JSON carries float64 sequence numbers (the encoder documents support for them):
		// it must encode to the same bytes, every time
		if jb, err := json.Marshal(content); err == nil {
			var viaJSON map[string]interface{}
			if json.Unmarshal(jb, &viaJSON) == nil {
				for rep := 0; rep < 3; rep++ {
					out, err := mxj.MapSeq(viaJSON).Xml()
					c.Count("mapseq-via-json-encodings")
					if err != nil || !bytes.Equal(out, ref["MapSeq.Xml"]) {
						c.Violate("c16-nondeterministic:MapSeq.Xml(float64 #seq)", "a MapSeq with float64 sequence numbers (after a JSON round trip) does not encode to the same bytes", core.D{"expected": string(ref["MapSeq.Xml"]), "observed": string(out), "err": fmt.Sprint(err)})
						break
					}
				}
			}
		}
		// explicit root tag: compact and indented must agree on it too
		a, ea := mxj.MapSeq(content).Xml("top")
		b, eb := mxj.MapSeq(content).XmlIndent(prefix, indent, "top")
		if ea == nil && eb == nil {
			t1, _ := tokenStream(a)
			t2, _ := tokenStream(b)
			if firstDiff(t1, t2) != "" {
				c.Violate("c16-indent-differs", "MapSeq.XmlIndent(root tag) differs from MapSeq.Xml(root tag) by more than whitespace", core.D{"compact": string(a), "indented": string(b), "diff": firstDiff(t1, t2)})
			}
		}
	}

	// ---- Writer / Raw forms ----
	type wT struct {
		name string
		want []byte
		f    func(w *logWriter) ([]byte, bool, error)
	}
	var ws []wT
	if isSeq {
		ms := mxj.MapSeq(content)
		ws = []wT{
			{"MapSeq.XmlWriter", ref["MapSeq.Xml"], func(w *logWriter) ([]byte, bool, error) { return nil, false, ms.XmlWriter(w) }},
			{"MapSeq.XmlIndentWriter", ref["MapSeq.XmlIndent"], func(w *logWriter) ([]byte, bool, error) { return nil, false, ms.XmlIndentWriter(w, prefix, indent) }},
		}
	} else {
		m := mxj.Map(content)
		ws = []wT{
			{"Map.XmlWriter", ref["Map.Xml"], func(w *logWriter) ([]byte, bool, error) { return nil, false, m.XmlWriter(w) }},
			{"Map.XmlIndentWriter", ref["Map.XmlIndent"], func(w *logWriter) ([]byte, bool, error) { return nil, false, m.XmlIndentWriter(w, prefix, indent) }},
			{"Map.JsonWriter", ref["Map.Json"], func(w *logWriter) ([]byte, bool, error) { return nil, false, m.JsonWriter(w) }},
			{"Map.JsonWriter(safe)", ref["Map.Json(safe)"], func(w *logWriter) ([]byte, bool, error) { return nil, false, m.JsonWriter(w, true) }},
			{"Map.JsonWriterRaw", ref["Map.Json"], func(w *logWriter) ([]byte, bool, error) { b, e := m.JsonWriterRaw(w); return b, true, e }},
			{"Map.JsonIndentWriter", ref["Map.JsonIndent"], func(w *logWriter) ([]byte, bool, error) { return nil, false, m.JsonIndentWriter(w, prefix, indent) }},
			{"Map.JsonIndentWriterRaw", ref["Map.JsonIndent"], func(w *logWriter) ([]byte, bool, error) {
				b, e := m.JsonIndentWriterRaw(w, prefix, indent)
				return b, true, e
			}},
		}
	}
	for _, w := range ws {
		lw := &logWriter{}
		raw, hasRaw, err := w.f(lw)
		c.Count("writer-calls-logged")
		if err != nil || !bytes.Equal(bytes.Join(lw.calls, nil), w.want) {
			c.Violate("c16-writer:"+w.name, w.name+" did not write exactly the bytes the byte-returning form returns", core.D{"writer": w.name, "writes": len(lw.calls), "written": joinCalls(lw.calls), "expected": string(w.want), "err": fmt.Sprint(err)})
		}
		if hasRaw && !bytes.Equal(raw, w.want) {
			c.Violate("c16-writer-raw:"+w.name, w.name+" returned bytes that differ from the byte-returning form", core.D{"raw": string(raw), "expected": string(w.want)})
		}
		if len(lw.calls) == 1 {
			c.Count("writer:single-write")
		}
		fw := &logWriter{fail: errSink}
		_, _, err = w.f(fw)
		c.Count("failing-sink")
		if err != errSink {
			c.Violate("c16-writer-error:"+w.name, w.name+" did not surface the sink's error", core.D{"writer": w.name, "err": fmt.Sprint(err)})
		}
	}

	// ---- Maps string / file forms ----
	if !isSeq {
		n := 1 + r.Intn(4)
		var mvs mxj.Maps
		var xs, xis, js, jss, jis, jiss [][]byte
		for i := 0; i < n; i++ {
			cp := copies[r.Intn(len(copies))]
			if i > 0 && r.Intn(2) == 0 {
				var st c03stats
				cp = map[string]interface{}{"k" + fmt.Sprint(i): c03gen(r, 2, &st), "z": "<&>"}
				if st.nullAttr {
					cp = map[string]interface{}{"z": "<&>"}
				}
			}
			if i > 0 && r.Intn(8) == 0 {
				// a nil or empty member still contributes its own encoding (<doc/>, null / {})
				cp = [](map[string]interface{}){nil, {}}[r.Intn(2)]
				c.Count("maps-forms:nil-or-empty-member")
			}
			mvs = append(mvs, cp)
			a, _ := mxj.Map(cp).Xml()
			b, _ := mxj.Map(cp).XmlIndent(prefix, indent)
			d, _ := mxj.Map(cp).Json()
			ds, _ := mxj.Map(cp).Json(true)
			e, _ := mxj.Map(cp).JsonIndent(prefix, indent)
			es, _ := mxj.Map(cp).JsonIndent(prefix, indent, true)
			xs, xis, js, jss, jis, jiss = append(xs, a), append(xis, b), append(js, d), append(jss, ds), append(jis, e), append(jiss, es)
		}
		c.Count("maps-forms")
		chk := func(name, got string, err error, parts [][]byte) {
			if err != nil {
				c.Violate("c16-maps-error:"+name, name+" failed", core.D{"err": err.Error()})
				return
			}
			if why := concatOfBlanks(got, parts); why != "" {
				c.Violate("c16-maps-concat:"+name, name+" is not the concatenation of the per-Map encodings", core.D{"form": name, "why": why, "output": got, "per_map": joinCalls(parts)})
			}
		}
		s, err := mvs.XmlString()
		chk("Maps.XmlString", s, err, xs)
		s, err = mvs.XmlStringIndent(prefix, indent)
		chk("Maps.XmlStringIndent", s, err, xis)
		s, err = mvs.JsonString()
		chk("Maps.JsonString", s, err, js)
		s, err = mvs.JsonString(true)
		chk("Maps.JsonString(safe)", s, err, jss)
		s, err = mvs.JsonStringIndent(prefix, indent)
		chk("Maps.JsonStringIndent", s, err, jis)
		s, err = mvs.JsonStringIndent(prefix, indent, true)
		chk("Maps.JsonStringIndent(safe)", s, err, jiss)
		dir := os.Getenv("VERIF_SCRATCH")
		if dir == "" {
			dir = filepath.Join(".build", "scratch")
		}
		os.MkdirAll(dir, 0o755)
		fn := filepath.Join(dir, "c16.out")
		file := func(name string, werr error, parts [][]byte) {
			b, rerr := os.ReadFile(fn)
			if werr != nil || rerr != nil {
				c.Violate("c16-maps-error:"+name, name+" failed", core.D{"err": fmt.Sprint(werr, rerr)})
				return
			}
			if why := concatOfBlanks(string(b), parts); why != "" {
				c.Violate("c16-maps-concat:"+name, name+" did not write the concatenation of the per-Map encodings", core.D{"form": name, "why": why, "file": string(b), "per_map": joinCalls(parts)})
			}
		}
		file("Maps.XmlFile", mvs.XmlFile(fn), xs)
		file("Maps.XmlFileIndent", mvs.XmlFileIndent(fn, prefix, indent), xis)
		// written over an existing, longer file: the file must be replaced, not patched
		os.WriteFile(fn, bytes.Repeat([]byte("<stale/>\n"), 400), 0o644)
		file("Maps.XmlFile(over existing file)", mvs.XmlFile(fn), xs)
		os.WriteFile(fn, bytes.Repeat([]byte("<stale/>\n"), 400), 0o644)
		file("Maps.XmlFileIndent(over existing file)", mvs.XmlFileIndent(fn, prefix, indent), xis)
		os.WriteFile(fn, bytes.Repeat([]byte("{\"stale\":1}\n"), 400), 0o644)
		file("Maps.JsonFileIndent(over existing file)", mvs.JsonFileIndent(fn, prefix, indent), jis)
		file("Maps.JsonFile", mvs.JsonFile(fn), js)
		file("Maps.JsonFile(safe)", mvs.JsonFile(fn, true), jss)
		file("Maps.JsonFileIndent", mvs.JsonFileIndent(fn, prefix, indent), jis)
		file("Maps.JsonFileIndent(safe)", mvs.JsonFileIndent(fn, prefix, indent, true), jiss)
		// written over an existing file of exactly the size of the new content (other bytes): size says nothing about content
		for i, w := range []func() error{func() error { return mvs.XmlFile(fn) }, func() error { return mvs.XmlFileIndent(fn, prefix, indent) },
			func() error { return mvs.JsonFile(fn) }, func() error { return mvs.JsonFileIndent(fn, prefix, indent) }} {
			if w() != nil {
				continue
			}
			if b, e := os.ReadFile(fn); e == nil && len(b) > 0 {
				os.WriteFile(fn, bytes.Repeat([]byte("#"), len(b)), 0o644)
				file([]string{"Maps.XmlFile", "Maps.XmlFileIndent", "Maps.JsonFile", "Maps.JsonFileIndent"}[i]+"(over a file of the same size)", w(), [][][]byte{xs, xis, js, jis}[i])
				c.Count("file:over-same-size-file")
			}
		}
		if r.Intn(4) == 0 {
			// a Maps value without members, written over an existing file: the concatenation of zero encodings is the empty file
			var none [][]byte
			for i, w := range []func() error{func() error { return mxj.Maps{}.XmlFile(fn) }, func() error { return mxj.Maps{}.XmlFileIndent(fn, prefix, indent) },
				func() error { return mxj.Maps{}.JsonFile(fn) }, func() error { return mxj.Maps{}.JsonFileIndent(fn, prefix, indent) }} {
				os.WriteFile(fn, bytes.Repeat([]byte("<stale/>{\"stale\":1}\n"), 50), 0o644)
				file([]string{"Maps{}.XmlFile", "Maps{}.XmlFileIndent", "Maps{}.JsonFile", "Maps{}.JsonFileIndent"}[i]+"(over existing file)", w(), none)
			}
			c.Count("maps-forms:empty-Maps-over-existing-file")
		}
		os.Remove(fn)
	}
}

func joinCalls(cs [][]byte) string {
	var s []string
	for _, b := range cs {
		s = append(s, string(b))
	}
	return strings.Join(s, " ⏎ ")
}

// concatOfBlanks: got must be parts[0] sep parts[1] sep ... with blank-only separators.
func concatOfBlanks(got string, parts [][]byte) string {
	rest := got
	for i, p := range parts {
		t, ps := rest, string(p)
		if i > 0 && !strings.HasPrefix(t, ps) {
			// blanks between the encodings (incl. an encoding's own leading indentation prefix) do not count
			t, ps = strings.TrimLeft(t, " \t\r\n"), strings.TrimLeft(ps, " \t\r\n")
		}
		if !strings.HasPrefix(t, ps) {
			return fmt.Sprintf("encoding #%d not found at its place", i)
		}
		rest = t[len(ps):]
	}
	if strings.Trim(rest, " \t\r\n") != "" {
		return "extra bytes after the last encoding"
	}
	return ""
}
