#!/bin/bash
# usage: tools/seed_recheck.sh [N] [ids...]
# Re-applies every kept seeded change (or the given ones) and confirms that the owning quick check reports it. Works on N
# (default 4) scratch copies of /verif + git worktrees of /repo (HEAD) under /tmp/recheck, so /repo and /verif are not
# touched and may be edited meanwhile; the copies are removed at the end. Result: .build/seed-recheck.log (+ MISSES line).
N=${1:-4}; shift
ids="$@"; [ -z "$ids" ] && ids=$(ls /verif/seeded | grep -E '^C[0-9]+-[A-Z]$')
export GOFLAGS=-mod=mod GOPROXY=off GOSUMDB=off GOTOOLCHAIN=local
base=/tmp/recheck
rm -rf $base; mkdir -p $base
git -C /repo worktree prune
for k in $(seq 1 $N); do
  d=$base/$k; mkdir -p $d
  git -C /repo worktree add -q --detach $d/repo HEAD || exit 2
  rsync -a --exclude .build --exclude evidence --exclude replays --exclude .git --exclude seeded --exclude bin /verif/ $d/verif/
  sed -i "s|=> /repo|=> $d/repo|" $d/verif/go.mod
  ( cd $d/verif && mkdir -p bin && go build -o bin/mxjcheck ./cmd/mxjcheck ) || exit 2
  : > $d/ids
done
i=0; for id in $ids; do k=$(( i % N + 1 )); echo $id >> $base/$k/ids; i=$((i+1)); done
for k in $(seq 1 $N); do
  (
    d=$base/$k; cd $d/verif
    for id in $(cat $d/ids); do
      owner=$(python3 -c "import json;print(json.load(open('/verif/seeded/$id/meta.json')).get('detected_by_check') or '$id'[:3])" 2>/dev/null)
      [ -z "$owner" ] && owner=${id:0:3}
      ( cd $d/repo && git apply /verif/seeded/$id/patch.diff ) || { echo "$id PATCH-DOES-NOT-APPLY"; continue; }
      out=$(./bin/mxjcheck run $owner --tier quick 2>&1); rc=$?
      ( cd $d/repo && git checkout -q -- . )
      if [ $rc -eq 1 ] && echo "$out" | grep -q "^VIOLATION property=$owner"; then echo "$id detected by $owner"; else echo "$id MISSED by $owner (rc=$rc)"; echo "$out" | tail -5 | sed 's/^/    /'; fi
    done
  ) > $base/$k/log 2>&1 &
done
wait
mkdir -p /verif/.build
cat $base/*/log | sort > /verif/.build/seed-recheck.log
echo "MISSES: $(grep -v 'detected by' /verif/.build/seed-recheck.log | grep -E '^C[0-9]+-' | awk '{print $1}' | tr '\n' ' ')" >> /verif/.build/seed-recheck.log
for k in $(seq 1 $N); do git -C /repo worktree remove --force $base/$k/repo; done
git -C /repo worktree prune; rm -rf $base
tail -1 /verif/.build/seed-recheck.log
