package mon

import (
	"fmt"
	"strings"

	mxj "github.com/clbanning/mxj/v2"

	"verif/internal/core"
	"verif/internal/jv"
)

// C11 - frame monitor for SetValueForPath / Remove / RenameKey.
type c11 struct{}

func init() { register(c11{}) }

func (c11) Meta() core.Meta {
	return core.Meta{
		ID: "C11", Level: "exploration",
		Rule:        "case i = f(seed,i): Map of nested maps (no empty lists; lists and scalars as terminal values), a dot-path through it (existing, missing last key, missing parent, through a scalar, ending at scalar/map/list/null; 1..6 segments, top level included) and a new name (fresh, existing sibling, the key itself). Each of Set/Remove/Rename runs on its own deep copy; the result is compared with the expected Map computed on an independent copy (frame: exactly one entry differs) or, on failure, with the untouched copy. Non-trivial: depth>=2 path whose parent exists; distinct by hash(map,path,newname).",
		Assumptions: []string{"paths that run through a list are outside the quantifier; for them only absence of panics and (for Remove/Rename) non-modification are checked"},
		Anchors:     []string{"Map.SetValueForPath", "Map.Remove", "remove", "Map.RenameKey", "renameKey", "prevValueByPath", "parentPath", "lastKey"},
		Floors:      map[string]int64{"set:success": 2000, "set:parent-missing": 300, "set:parent-scalar": 200, "remove:success": 1000, "remove:missing": 500, "rename:success": 500, "rename:clash": 300, "rename:clash-toplevel": 50, "rename:self": 50, "toplevel-path": 500},
	}
}

func (c11) Cases(tier string, race bool) int {
	if race {
		return 0
	}
	if tier == "thorough" {
		return 1500000
	}
	return 150000
}

func (c11) Case(c *core.Ctx) {
	r := c.R
	keys := keyAlphabet(r, []string{"a", "b", "c", "k", "doc", "Kk", "a-B"})
	namedMaps, hasNamed := r.Intn(10) == 0, false
	var gen func(depth int) interface{}
	gen = func(depth int) interface{} {
		x := r.Intn(10)
		if depth <= 0 {
			x = r.Intn(3)
		}
		switch {
		case x < 2:
			return fmt.Sprintf("s%d", r.Intn(50))
		case x == 2:
			if r.Intn(3) == 0 {
				return nil
			}
			return float64(r.Intn(10))
		case x < 9:
			m := jv.M{}
			n := r.Intn(4)
			for i := 0; i < n; i++ {
				m[keys[r.Intn(len(keys))]] = gen(depth - 1)
			}
			if namedMaps && n > 0 && r.Intn(4) == 0 {
				// a value of the NAMED type mxj.Map below the root: the path functions look for map[string]interface{}
				// values only (ValueForPath reports a path through it as not existing), so for Set / Remove / Rename it is
				// a terminal value like a scalar - a path through it cannot be applied and nothing may change
				hasNamed = true
				return mxj.Map(m)
			}
			return m
		default:
			n := 1 + r.Intn(3) // no empty lists
			if r.Intn(15) == 0 {
				n = 33 + r.Intn(40) // wider than the query functions' initial result capacity
			}
			l := jv.L{}
			for i := 0; i < n; i++ {
				v := gen(depth - 1)
				if _, isList := v.([]interface{}); isList {
					v = "x"
				}
				l = append(l, v)
			}
			return l
		}
	}
	root := jv.M{}
	for i, n := 0, 1+r.Intn(3); i < n; i++ {
		root[keys[r.Intn(len(keys))]] = gen(1 + r.Intn(5))
	}
	// path through nested maps
	var segs []string
	cur := interface{}(root)
	n := 1 + r.Intn(6)
	for j := 0; j < n; j++ {
		mm, ok := cur.(map[string]interface{})
		if nm, isNamed := cur.(mxj.Map); isNamed {
			mm, ok = nm, true // the path is aimed at real keys inside the named-type value
		}
		name := []string{"a", "b", "c", "k", "zz"}[r.Intn(5)]
		if ok && len(mm) > 0 && r.Intn(6) != 0 {
			ks := sortedKeys(mm)
			name = ks[r.Intn(len(ks))]
			cur = mm[name]
		} else {
			cur = nil
		}
		segs = append(segs, name)
		_, isMap := cur.(map[string]interface{})
		if _, isNamed := cur.(mxj.Map); isNamed {
			isMap = true
		}
		if !isMap && r.Intn(3) != 0 {
			break
		}
	}
	if hasNamed {
		c.Count("shape:nested-named-map-value")
	}
	if len(segs) >= 2 && r.Intn(6) == 0 {
		// bystanders whose key TEXT equals a dotted piece of the path: a top-level entry named like the whole parent path,
		// and, in each map on the way, an entry named like the dotted remainder. They are ordinary entries (a key may
		// contain a dot); no path addresses them, and they must come through every operation unchanged.
		root[strings.Join(segs[:len(segs)-1], ".")] = jv.M{segs[len(segs)-1]: "bystander", "x": jv.L{"y"}}
		var cc interface{} = root
		for j := 0; j < len(segs)-1; j++ {
			mm, ok := cc.(map[string]interface{})
			if !ok {
				break
			}
			if rem := strings.Join(segs[j:], "."); j > 0 || len(segs) > 2 {
				if _, clash := mm[rem]; !clash && strings.Contains(rem, ".") {
					mm[rem] = "bystander"
				}
			}
			cc = mm[segs[j]]
		}
		c.Count("bystanders-with-dotted-keys")
	}
	path := strings.Join(segs, ".")
	last := segs[len(segs)-1]
	if len(segs) == 1 {
		c.Count("toplevel-path")
	}

	// independent navigation: map-only walk to the parent
	nav := func(m map[string]interface{}) (parent map[string]interface{}, exists, parentIsMap, listOnWay, scalarParent bool) {
		var cc interface{} = m
		for j, s := range segs {
			mm, ok := cc.(map[string]interface{})
			if !ok {
				if _, isL := cc.([]interface{}); isL {
					return nil, false, false, true, false
				}
				return nil, false, false, false, j == len(segs)-1
			}
			if j == len(segs)-1 {
				_, ex := mm[s]
				return mm, ex, true, false, false
			}
			nx, ex := mm[s]
			if !ex {
				return nil, false, false, false, false
			}
			cc = nx
		}
		return nil, false, false, false, false
	}
	before := jv.Fp(root)
	if ambientDecoderOptions(c, 6) {
		defer ResetDefaults()
	}
	c.Eval()
	failedCalls(c, 8)
	_, exB, pimB, _, _ := nav(root)
	if pimB && len(segs) >= 2 {
		c.NonTrivial(before, path)
	}
	if c.WantSample() && pimB && exB && len(segs) >= 3 && len(before) < 300 {
		c.Sample(core.D{"map": before, "path": path})
	}

	// ---- Set ----
	{
		exp := c11copy(root).(jv.M)
		act := c11copy(root).(jv.M)
		var v interface{} = fmt.Sprintf("NEW#%d", c.Index)
		switch r.Intn(4) {
		case 0:
			v = map[string]interface{}{"n": float64(c.Index)}
		case 1:
			v = float64(c.Index) + 0.5
		case 2:
			// Go-typed content must arrive unchanged (types included)
			v = map[string]interface{}{"i": c.Index, "l": []interface{}{1, "x", int64(7)}, "m": map[string]interface{}{"u": uint64(3)}}
		}
		err := mxj.Map(act).SetValueForPath(v, path)
		p, _, pim, listOnWay, scalarParent := nav(exp)
		det := core.D{"op": "SetValueForPath", "map": before, "path": path, "value": jv.Show(v), "after": jv.Show(act), "err": fmt.Sprint(err)}
		switch {
		case pim:
			c.Count("set:success")
			p[last] = v
			if err != nil {
				c.Violate("c11-set-error", "SetValueForPath failed although the parent is a map", det)
			} else if jv.Fp(act) != jv.Fp(exp) {
				det["first_difference(expected vs observed)"] = jv.Diff(exp, act)
				c.Violate("c11-set-frame", "SetValueForPath changed something other than the addressed entry", det)
			} else if got, e := mxj.Map(act).ValueForPath(path); e != nil || !jv.Equal(got, v) {
				det["valueforpath"] = jv.Show(got)
				c.Violate("c11-set-readback", "ValueForPath(path) does not return the new value after SetValueForPath", det)
			}
		case !listOnWay:
			if scalarParent {
				c.Count("set:parent-scalar")
			} else {
				c.Count("set:parent-missing")
			}
			if jv.Fp(act) != before {
				c.Violate("c11-set-modified-on-failure", "SetValueForPath modified the Map although it could not be applied", det)
			}
		}
	}
	// ---- Remove ----
	{
		exp := c11copy(root).(jv.M)
		act := c11copy(root).(jv.M)
		err := mxj.Map(act).Remove(path)
		p, ex, pim, listOnWay, _ := nav(exp)
		det := core.D{"op": "Remove", "map": before, "path": path, "after": jv.Show(act), "err": fmt.Sprint(err)}
		if pim && ex {
			c.Count("remove:success")
			delete(p, last)
			if err != nil {
				c.Violate("c11-remove-error", "Remove failed on an existing path", det)
			} else if jv.Fp(act) != jv.Fp(exp) {
				det["first_difference(expected vs observed)"] = jv.Diff(exp, act)
				c.Violate("c11-remove-frame", "Remove changed something other than the addressed entry", det)
			} else if e, _ := mxj.Map(act).Exists(path); e {
				c.Violate("c11-remove-still-exists", "the path still exists after Remove", det)
			}
		} else {
			if jv.Fp(act) != before {
				c.Violate("c11-remove-modified-on-failure", "Remove modified the Map although the path does not exist", det)
			} else if err == nil && !listOnWay {
				c.Violate("c11-remove-no-error", "Remove of a missing path reported success", det)
			}
			if !listOnWay {
				c.Count("remove:missing")
			}
		}
	}
	// ---- Rename ----
	{
		exp := c11copy(root).(jv.M)
		act := c11copy(root).(jv.M)
		nn := []string{"a", "b", "c", "k", "fresh", "doc", last, "Kk", "kk", "a-B", "a_b"}[r.Intn(11)]
		if &keys[0] == &hostileKeys[0] && r.Intn(2) == 0 {
			// a name that differs from an existing sibling only by a blank at an edge, a digit string, a name with '/'
			nn = append([]string{last + " ", " " + last, strings.TrimSpace(last), "c "}, hostileKeys...)[r.Intn(4+len(hostileKeys))]
		}
		err := mxj.Map(act).RenameKey(path, nn)
		p, ex, pim, listOnWay, _ := nav(exp)
		det := core.D{"op": "RenameKey", "map": before, "path": path, "newName": nn, "after": jv.Show(act), "err": fmt.Sprint(err)}
		if pim && ex {
			if _, clash := p[nn]; clash {
				c.Count("rename:clash")
				if len(segs) == 1 {
					c.Count("rename:clash-toplevel")
				}
				if nn == last {
					c.Count("rename:self")
				}
				if err == nil || jv.Fp(act) != before {
					class := "c11-rename-overwrite"
					if len(segs) == 1 {
						class = "c11-rename-overwrite-toplevel"
					}
					c.Violate(class, "RenameKey onto an existing sibling did not fail cleanly", det)
				}
			} else {
				c.Count("rename:success")
				p[nn] = p[last]
				delete(p, last)
				if err != nil {
					c.Violate("c11-rename-error", "RenameKey failed although the path exists and the new name is free", det)
				} else if jv.Fp(act) != jv.Fp(exp) {
					det["first_difference(expected vs observed)"] = jv.Diff(exp, act)
					c.Violate("c11-rename-frame", "RenameKey did not move exactly the addressed entry", det)
				}
			}
		} else {
			if jv.Fp(act) != before {
				c.Violate("c11-rename-modified-on-failure", "RenameKey modified the Map although the path does not exist", det)
			} else if err == nil && !listOnWay {
				c.Violate("c11-rename-no-error", "RenameKey of a missing path reported success", det)
			}
		}
	}
}

// c11copy: deep copy that also copies values of the named type mxj.Map (jv.Copy shares them).
func c11copy(v interface{}) interface{} {
	switch t := v.(type) {
	case jv.M:
		o := make(jv.M, len(t))
		for k, x := range t {
			o[k] = c11copy(x)
		}
		return o
	case mxj.Map:
		o := make(mxj.Map, len(t))
		for k, x := range t {
			o[k] = c11copy(x)
		}
		return o
	case jv.L:
		o := make(jv.L, len(t))
		for i, x := range t {
			o[i] = c11copy(x)
		}
		return o
	}
	return v
}
