package mon

import (
	"encoding/xml"
	"math"
	"bytes"
	"encoding/json"
	"fmt"
	"math/rand"
	"os"
	"os/exec"
	"path/filepath"
	"reflect"
	"runtime"
	"sort"
	"strings"
	"sync"
	"sync/atomic"

	mxj "github.com/clbanning/mxj/v2"
	"github.com/clbanning/mxj/v2/j2x"
	"github.com/clbanning/mxj/v2/x2j"

	"verif/internal/core"
	"verif/internal/jv"
	"verif/internal/xt"
)

// C17 - purity of read-only operations (sequential monitor, plain build) and
// freedom from data races / schedule-independent results (concurrency monitor, -race build).
type c17 struct{}

func init() { register(c17{}) }

func (c17) Meta() core.Meta {
	return core.Meta{
		ID: "C17", Level: "exploration",
		Rule:        "plain build, case i = f(seed,i): purity monitor - a generated Map (JSON/XML shape, attribute and text entries, lists of maps that carry the sub-key fields) and MapSeq (as decoded, and with float64 / json.Number sequence numbers after a JSON round trip); every read-only method (ValuesFor*/ValueFor*/PathsFor*/PathForKeyShortest/Leaf*/Exists/Elements/Attributes/Root with plain, wildcard and indexed paths and sub-keys; Xml/XmlIndent/XmlWriter/Json/JsonIndent/JsonWriter/Gob/Copy/StringIndent/Struct/NewMap/AnyXml/j2x.MapToJson/x2j.MapToXml/Maps.XmlString; MapSeq.Xml/XmlIndent/StringIndent) is called and the receiver's fingerprint compared before/after; Copy: every container of the copy is mutated in place, the original must not change and no map or slice pointer may be shared. -race build, case i = one round: G in {2,4,8,16,32} goroutines (GOMAXPROCS in {2,4,16}) are released by a barrier and run a seeded mix of decode (NewMapXml / NewMapXmlReader over plain io.Readers / NewMapXmlSeq / NewMapJson / NewMapJsonReader), encode and query operations over ONE shared read-only Map, one shared MapSeq and private Maps (private UpdateValuesForPath / SetValueForPath / NewMap; private Maps of 120..30000 rows whose encodings cross 4 KiB / 64 KiB / 1 MiB); every operation's result fingerprint must equal the result computed sequentially beforehand; any WARNING: DATA RACE block (deduplicated by the innermost mxj frame pair), any fatal 'concurrent map' error and any result mismatch is a violation. Overlap evidence: start/end ticks of every operation from one atomic counter; the distinct overlapping (opA, opB) kind pairs are counted and must reach a floor. Non-trivial: purity case with a list-valued entry / a round with >=2 goroutines; distinct by hash(map) / hash(round).",
		Assumptions: []string{"the Go race detector reports happens-before races on the executions that occurred, not on all schedules", "package options are not changed while goroutines run (the property excludes it)"},
		Anchors:     []string{"Map.Copy", "Map.ValuesForPath", "valuesForKeyPath", "hasKey", "Map.LeafNodes", "Map.Xml", "marshalMapToXmlIndent", "MapSeq.Xml", "Map.Json", "Map.Gob", "Map.StringIndent", "Map.Struct", "Map.NewMap", "Map.Elements", "Map.Attributes", "Map.Root"},
		Floors:      map[string]int64{"purity:method-calls": 100000, "purity:indexed-path-with-subkeys": 1000, "copy:mutations": 5000, "conc:ops": 20000, "conc:rounds": 20},
		SetFloors:   map[string]int64{"overlap-pairs": 150},
		UsesRace:    true,
	}
}

func (c17) Cases(tier string, race bool) int {
	if race {
		if tier == "thorough" {
			return 1600
		}
		return 96
	}
	if tier == "thorough" {
		return 150000
	}
	return 5000
}

func c17map(r *rand.Rand) map[string]interface{} {
	keys := []string{"a", "b", "c", "k", "id", "items", "entry"}
	var gen func(d int) interface{}
	infs := r.Intn(10) == 0
	scalar := func() interface{} {
		switch r.Intn(7) {
		case 6:
			return nil
		case 0:
			if infs && r.Intn(3) == 0 {
				return math.Inf(1 - 2*r.Intn(2)) // what a cast decode leaves under CastNanInf(true); the JSON encoders refuse it
			}
			return float64(r.Intn(6))
		case 1:
			return r.Intn(2) == 0
		default:
			return []string{"x", "y", "z", "5", "<&>"}[r.Intn(5)]
		}
	}
	gen = func(d int) interface{} {
		x := r.Intn(10)
		if d <= 0 {
			x = 0
		}
		switch {
		case x < 3:
			return scalar()
		case x < 7:
			m := jv.M{}
			for i, n := 0, 1+r.Intn(4); i < n; i++ {
				m[keys[r.Intn(len(keys))]] = gen(d - 1)
			}
			if r.Intn(3) == 0 {
				m["-id"] = scalar()
			}
			if r.Intn(5) == 0 {
				m["#text"] = scalar()
			}
			return m
		default:
			l := jv.L{}
			for i, n := 0, 1+r.Intn(5); i < n; i++ {
				if r.Intn(4) == 0 {
					l = append(l, scalar())
				} else {
					m := jv.M{"id": scalar()}
					for j, k := 0, r.Intn(3); j < k; j++ {
						m[keys[r.Intn(len(keys))]] = gen(d - 2)
					}
					l = append(l, m)
				}
			}
			return l
		}
	}
	root := jv.M{"doc": gen(2 + r.Intn(4))}
	if r.Intn(3) == 0 {
		// several parents each holding a list with spare capacity: a query that collects across them must not write into them
		secs := jv.L{}
		for i, n := 0, 2+r.Intn(3); i < n; i++ {
			items := make(jv.L, 0, 8)
			for j, k := 0, 1+r.Intn(3); j < k; j++ {
				items = append(items, fmt.Sprintf("i%d.%d", i, j))
			}
			secs = append(secs, jv.M{"item": items, "id": scalar()})
		}
		root["sec"] = secs
	}
	if r.Intn(3) == 0 {
		// a top-level list with spare capacity (whatever key Go's map iteration yields first may be this one)
		spare := make(jv.L, 0, 16)
		for j, k := 0, 1+r.Intn(3); j < k; j++ {
			spare = append(spare, scalar())
		}
		root[[]string{"a", "spare", "b"}[r.Intn(3)]] = spare
	}
	if r.Intn(2) == 0 {
		// more values than the initial result capacity of the query functions
		wide := jv.L{}
		for i, n := 0, 33+r.Intn(40); i < n; i++ {
			wide = append(wide, jv.M{"id": scalar(), "k": float64(i)})
		}
		root["items"] = wide
	}
	return root
}

// mutateContainers changes every container reachable from v in place.
func mutateContainers(v interface{}, n *int) {
	switch t := v.(type) {
	case map[string]interface{}:
		for k, e := range t {
			mutateContainers(e, n)
			switch e.(type) {
			case map[string]interface{}, []interface{}:
			default:
				t[k] = "MUTATED"
			}
		}
		t["\x00added"] = true
		*n++
	case []interface{}:
		for i, e := range t {
			mutateContainers(e, n)
			switch e.(type) {
			case map[string]interface{}, []interface{}:
			default:
				t[i] = "MUTATED"
			}
		}
		*n++
	}
}

func (c17) Case(c *core.Ctx) {
	if c.Race {
		c17round(c)
		return
	}
	c17purity(c)
}

func c17purity(c *core.Ctx) {
	r := c.R
	defer ResetDefaults()
	c.Eval()
	failedCalls(c, 8)
	root := c17map(r)
	if r.Intn(6) == 0 {
		c.Add("purity:aliased-submaps", int64(jv.Alias(r, root, 1+r.Intn(2), func(k string) bool { return strings.HasPrefix(k, "-") || k == "#text" })))
	}
	// canaries in the spare capacity of every list of the receiver: a query that collects results by appending to a list
	// it found in the receiver writes there without changing anything a comparison of the Map can see
	type canaryT struct {
		l    []interface{}
		full []interface{}
	}
	var canaries []canaryT
	var plant func(v interface{})
	plant = func(v interface{}) {
		switch t := v.(type) {
		case map[string]interface{}:
			for _, e := range t {
				plant(e)
			}
		case []interface{}:
			if cap(t) > len(t) {
				full := t[:cap(t)]
				for i := len(t); i < len(full); i++ {
					full[i] = "CANARY"
				}
				canaries = append(canaries, canaryT{t, full})
			}
			for _, e := range t {
				plant(e)
			}
		}
	}
	plant(root)
	canariesIntact := func() bool {
		for _, cn := range canaries {
			for i := len(cn.l); i < len(cn.full); i++ {
				if s, ok := cn.full[i].(string); !ok || s != "CANARY" {
					return false
				}
			}
		}
		return true
	}
	c.Add("purity:spare-capacity-canaries", int64(len(canaries)))
	m := mxj.Map(root)
	before := jv.Fp(root)
	orig := jv.Copy(root)
	if strings.Contains(before, "[") {
		c.NonTrivial(before)
	}
	pool := []string{"doc", "a", "b", "c", "k", "id", "items", "entry"}
	check := func(name string) bool {
		c.Count("purity:method-calls")
		if after := jv.Fp(root); after != before {
			c.Violate("c17-receiver-modified:"+name, name+" modified its receiver", core.D{"method": name, "before": before, "after": after, "first_difference": jv.Diff(orig, root)})
			return false
		}
		if !canariesIntact() {
			c.Violate("c17-receiver-modified:"+name, name+" wrote into the spare capacity of a list of its receiver (its result shares that list's storage)", core.D{"method": name, "map": before})
			return false
		}
		return true
	}
	type op struct {
		name string
		f    func()
	}
	var ops []op
	for i := 0; i < 4; i++ {
		segs := genPath(r, root, pool, true, true)
		for j := range segs {
			if segs[j].name == "*" {
				segs[j].idx = -1
			}
		}
		p := pathString(segs)
		var sample []interface{}
		if vs, err := m.ValuesForPath(p); err == nil {
			sample = vs
		}
		_, specs := genConds(r, ":", sample)
		if r.Intn(2) == 0 {
			specs = []string{"id:" + []string{"x", "y", "5"}[r.Intn(3)]}
		}
		if numIndexed(segs) > 0 {
			c.Count("purity:indexed-path-with-subkeys")
		}
		k := pool[r.Intn(len(pool))]
		ops = append(ops,
			op{"ValuesForPath(subkeys)", func() { m.ValuesForPath(p, specs...) }},
			op{"ValuesForPath", func() { m.ValuesForPath(p) }},
			op{"ValueForPath", func() { m.ValueForPath(p) }},
			op{"ValueForPathString", func() { m.ValueForPathString(p); m.ValueOrEmptyForPathString(p) }},
			op{"Exists", func() { m.Exists(p, specs...) }},
			op{"ValuesForKey(subkeys)", func() { m.ValuesForKey(k, specs...) }},
			op{"ValuesForKey", func() { m.ValuesForKey(k); m.ValuesForKey("*") }},
			op{"ValueForKey", func() { m.ValueForKey(k, specs...) }},
			op{"PathsForKey", func() { m.PathsForKey(k); m.PathForKeyShortest(k) }},
			op{"Elements", func() { m.Elements(p) }},
			op{"Attributes", func() { m.Attributes(p) }},
			op{"NewMap", func() { m.NewMap(p+":n0", k+":n0.sub", "doc:n1") }},
		)
	}
	var st struct {
		Doc interface{} `json:"doc"`
	}
	ops = append(ops,
		op{"Root", func() { m.Root() }},
		op{"LeafNodes", func() { m.LeafNodes(); m.LeafNodes(true) }},
		op{"LeafPaths", func() { m.LeafPaths(); m.LeafPaths(true) }},
		op{"LeafValues", func() { m.LeafValues(); m.LeafValues(true) }},
		op{"Xml", func() { m.Xml(); m.Xml("r") }},
		op{"XmlIndent", func() { m.XmlIndent("", " ") }},
		op{"XmlWriter", func() { m.XmlWriter(&bytes.Buffer{}); m.XmlIndentWriter(&bytes.Buffer{}, "", " ") }},
		op{"Json", func() { m.Json(); m.Json(true) }},
		op{"JsonIndent", func() { m.JsonIndent("", " ") }},
		op{"JsonWriter", func() {
			m.JsonWriter(&bytes.Buffer{})
			m.JsonWriterRaw(&bytes.Buffer{})
			m.JsonIndentWriter(&bytes.Buffer{}, "", " ")
		}},
		op{"Gob", func() { m.Gob() }},
		op{"StringIndent", func() { m.StringIndent(); m.StringIndentNoTypeInfo(2) }},
		op{"Struct", func() { m.Struct(&st) }},
		op{"AnyXml", func() { mxj.AnyXml(root); mxj.AnyXmlIndent(root, "", " ") }},
		op{"j2x.MapToJson", func() { j2x.MapToJson(root) }},
		op{"x2j.MapToXml", func() { x2j.MapToXml(root) }},
		op{"Maps.XmlString", func() { mxj.Maps{m, m}.XmlString(); mxj.Maps{m}.JsonString() }},
		op{"Old", func() { m.Old() }},
	)
	r.Shuffle(len(ops), func(i, j int) { ops[i], ops[j] = ops[j], ops[i] })
	// non-default options do not make queries/encoders impure either
	if r.Intn(3) == 0 {
		mxj.XMLEscapeChars(true)
		mxj.XmlCheckIsValid(r.Intn(2) == 0)
		mxj.LeafUseDotNotation(r.Intn(2) == 0)
	}
	// query results belong to the caller: results of earlier queries must not change when later queries run
	type keptRes struct {
		name string
		vals []interface{}
		fp   string
	}
	var keptResults []keptRes
	for _, p := range []string{"sec.item", "sec.*", "doc.items", "items", "sec.id"} {
		if vs, err := m.ValuesForPath(p); err == nil && len(vs) > 0 {
			keptResults = append(keptResults, keptRes{"ValuesForPath(" + p + ")", vs, jv.Fp(vs)})
		}
	}
	defer func() {
		for _, k := range keptResults {
			c.Count("purity:retained-query-results")
			if jv.Fp(k.vals) != k.fp {
				c.Violate("c17-query-result-changed-later", "the result of "+k.name+" changed when later queries ran (it shares a buffer with the receiver or with other results)", core.D{"query": k.name, "was": k.fp, "now": jv.Show(k.vals), "map": before})
			}
		}
	}()
	optsBefore := mxj.VerifOptionSnapshot()
	for _, o := range ops {
		o.f()
		if !check(o.name) {
			return
		}
		if now := mxj.VerifOptionSnapshot(); !reflect.DeepEqual(now, optsBefore) {
			c.Violate("c17-query-changed-options:"+o.name, o.name+" (a read-only operation) changed package-level option state", core.D{"method": o.name, "difference": diffSnap(optsBefore, now), "map": before})
			return
		}
	}
	// ---- Copy ----
	cp, err := m.Copy()
	if !check("Copy") {
		return
	}
	if err == nil {
		if jv.Fp(cp) != before {
			c.Violate("c17-copy-differs", "Copy is not deeply equal to the original", core.D{"original": before, "copy": jv.Show(cp)})
		} else if jv.SharesStructure(root, map[string]interface{}(cp)) {
			c.Violate("c17-copy-shares-structure", "Copy shares a map or slice with the original", core.D{"original": before})
		} else {
			n := 0
			mutateContainers(map[string]interface{}(cp), &n)
			c.Add("copy:mutations", int64(n))
			if jv.Fp(root) != before {
				c.Violate("c17-copy-shares-structure", "mutating the copy changed the original", core.D{"original_before": before, "original_after": jv.Show(root)})
			}
		}
	}
	// Copy of small / empty Maps: still a new Map
	for _, small := range []mxj.Map{{}, {"a": map[string]interface{}{}}, {"l": []interface{}{}}} {
		cp2, err := small.Copy()
		if err == nil {
			cp2["\x00added"] = 1
			if _, leaked := small["\x00added"]; leaked {
				c.Violate("c17-copy-shares-structure", "Copy of a small Map returned the receiver itself: writing to the copy changed the original", core.D{"original": jv.Show(small)})
			}
		}
	}
	// ---- MapSeq ----
	doc := xt.Render(r, c04gen.Gen(r, 1+r.Intn(3)), xt.Style{NoWS: true})
	ms0, err0 := mxj.NewMapXmlSeq(doc)
	for variant := 0; variant < 3 && err0 == nil; variant++ {
		// the same MapSeq as decoded (int sequence numbers), after a JSON round trip (float64) and after a JSON round trip
		// with JsonUseNumber (json.Number)
		ms := ms0
		if variant > 0 {
			jb, e := mxj.Map(ms0).Json()
			if e != nil {
				break
			}
			mxj.JsonUseNumber = variant == 2
			mj, e := mxj.NewMapJson(jb)
			mxj.JsonUseNumber = false
			if e != nil {
				break
			}
			ms = mxj.MapSeq(mj)
			c.Count("purity:mapseq-through-json")
		}
		b0 := jv.Fp(ms)
		for _, o := range []op{
			{"MapSeq.Xml", func() { ms.Xml(); ms.Xml("r") }},
			{"MapSeq.XmlIndent", func() { ms.XmlIndent("", " ") }},
			{"MapSeq.XmlWriter", func() { ms.XmlWriter(&bytes.Buffer{}); ms.XmlIndentWriter(&bytes.Buffer{}, "", " ") }},
			{"MapSeq.StringIndent", func() { ms.StringIndent(); ms.StringIndentNoTypeInfo() }},
		} {
			o.f()
			c.Count("purity:method-calls")
			if jv.Fp(ms) != b0 {
				c.Violate("c17-receiver-modified:"+o.name, o.name+" modified its receiver", core.D{"method": o.name, "before": b0, "after": jv.Show(ms)})
				return
			}
		}
	}
	if c.WantSample() && len(before) < 300 {
		c.Sample(core.D{"kind": "purity", "map": before, "methods_called": len(ops) + 5})
	}
}

// ---------------- concurrency round ----------------

// C17GobChild: a fresh process in which nobody has registered the nested types with encoding/gob; n goroutines, released
// together, make the first Gob calls of the process - and n more make the first calls of a number of other entry points
// (decoders, the formatted sequence decoder, BeautifyXml, encoders, queries). Prints one result per goroutine.
func C17GobChild(n int) {
	res := make([]string, n)
	first := make([]string, n)
	start := make(chan struct{})
	var wg sync.WaitGroup
	for g := 0; g < n; g++ {
		wg.Add(1)
		go func(g int) {
			defer wg.Done()
			<-start
			pm := mxj.Map{"doc": map[string]interface{}{"l": []interface{}{1.5, "x", map[string]interface{}{"k": float64(g)}}}}
			b, e := pm.Gob()
			if e != nil {
				res[g] = "ERR"
				if !strings.Contains(e.Error(), "type not registered") {
					res[g] += " " + e.Error()
				}
				return
			}
			back, e2 := mxj.NewMapGob(b)
			res[g] = fmt.Sprint("ok ", jv.Fp(back) == jv.Fp(pm), e2)
		}(g)
		// ... and the first call in this process of a number of other entry points (whatever they initialise lazily)
		wg.Add(1)
		go func(g int) {
			defer wg.Done()
			<-start
			doc := []byte("<r a='1'>\n <k>v</k>\n <k n:b='2'>3.5</k>\n <!-- c -->\n</r>")
			s1, e1 := mxj.NewMapFormattedXmlSeq(doc)
			b2, e2 := mxj.BeautifyXml(doc, "", " ")
			m3, e3 := mxj.NewMapXml(doc, true)
			x4, e4 := m3.XmlIndent("", "  ")
			m5, e5 := mxj.NewMapJson([]byte(`{"a":[1,{"b":"<&>"}]}`))
			j6, e6 := m5.Json(true)
			v7, e7 := m3.ValuesForPath("r.k[1].#text")
			l8 := m3.LeafPaths()
			sort.Strings(l8)
			first[g] = fmt.Sprint(jv.Fp(s1), e1, string(b2), e2, jv.Fp(m3), e3, string(x4), e4, string(j6), e5, e6, jv.Fp(v7), e7, l8)
		}(g)
	}
	close(start)
	wg.Wait()
	for g := range res {
		res[g] += " | " + fmt.Sprint(core.HashStr(first[g]))
	}
	b, _ := json.Marshal(res)
	fmt.Println("C17CHILD " + string(b))
}

func c17gobChildren(c *core.Ctx, n int) {
	self, err := os.Executable()
	if err != nil {
		c.Harness("c17: " + err.Error())
		return
	}
	run := func(k int) []string {
		out, err := exec.Command(self, "-c17child", fmt.Sprint(k)).Output()
		i := strings.Index(string(out), "C17CHILD ")
		if i < 0 {
			c.Harness(fmt.Sprintf("c17 gob child failed: %v %s", err, out))
			return nil
		}
		// (a non-zero exit status with the result line present is the race detector's exit code: its report is in the race log
		// the driver collects)
		var res []string
		json.Unmarshal([]byte(strings.TrimSpace(string(out)[i+9:])), &res)
		return res
	}
	if c17gobSeq == nil {
		c17gobSeq = run(1)
	}
	seq := c17gobSeq
	if len(seq) != 1 {
		return
	}
	for k := 0; k < 4; k++ {
		conc := run(n)
		if len(conc) != n {
			return
		}
		c.Count("conc:fresh-process-first-gob-rounds")
		for g, r := range conc {
			if r != seq[0] {
				c.Violate("c17-result-differs:first-Gob-calls-of-a-process", "the first Gob calls of a fresh process return different results when made concurrently than when made alone", core.D{"goroutines": n, "goroutine": g, "concurrent": conc, "sequential": seq[0]})
				return
			}
		}
	}
}

var c17gobSeq []string

var c17fileSeq int64
var c17growLen int64 = 90
var c17gobRoundDone bool

type c17op struct {
	kind string
	f    func() string // result fingerprint
}

type c17rec struct {
	g, i       int
	kind       string
	start, end int64
	got, want  string
}

func sortedStrings(s []string) string {
	s = append([]string{}, s...)
	sort.Strings(s)
	return strings.Join(s, "|")
}

func fpVals(vs []interface{}, err error) string {
	if err != nil {
		return "ERR:" + err.Error()
	}
	fs := make([]string, len(vs))
	for i, v := range vs {
		fs[i] = jv.Fp(v)
	}
	return sortedStrings(fs)
}

func c17round(c *core.Ctx) {
	r := c.R
	defer ResetDefaults()
	c.Eval()
	c.Count("conc:rounds")
	G := []int{2, 4, 8, 16, 32}[r.Intn(5)]
	procs := []int{2, 4, 16}[r.Intn(3)]
	old := runtime.GOMAXPROCS(procs)
	defer runtime.GOMAXPROCS(old)
	c.NonTrivial(fmt.Sprint(c.Index, G, procs))
	if c.Index%3 == 2 {
		// a caller-supplied decoder configuration (set before the goroutines start, left alone while they run): the
		// decoders read it, they have no business writing to it
		mxj.CustomDecoder = &xml.Decoder{Strict: true}
		defer func() { mxj.CustomDecoder = nil }()
		c.Count("race:custom-decoder-installed")
	}

	if c.Index%4 == 1 {
		c17gobChildren(c, []int{4, 8, 16, 32}[r.Intn(4)])
	}
	sharedRoot := c17map(r)
	shared := mxj.Map(sharedRoot)
	sharedFp := jv.Fp(sharedRoot)
	seqDoc := xt.Render(r, c04gen.Gen(r, 1+r.Intn(3)), xt.Style{NoWS: true})
	sharedSeq, _ := mxj.NewMapXmlSeq(seqDoc)
	xmlDocs := make([][]byte, 6)
	for i := range xmlDocs {
		xmlDocs[i] = xt.Render(r, c02gen.Gen(r, 1+r.Intn(3)), xt.Style{})
	}
	jsonDocs := make([][]byte, 4)
	for i := range jsonDocs {
		jsonDocs[i], _ = json.Marshal(c17map(r))
	}
	pool := []string{"doc", "a", "b", "c", "k", "id", "items", "entry"}
	// large private Maps: encodings beyond 4 KiB / 64 KiB (and in 1/8 of the rounds 1 MiB) cross the buffer-growth and
	// size-hint thresholds of the encoders; each goroutine encodes its own copy
	bigN, bigBudget := []int{100, 1500, 1500, 2500, autoInt(r, 1024, 200000, 65536)/40 + 2}[r.Intn(5)], 24
	if c.Index%8 == 3 {
		bigN, bigBudget = 22000, 4
	}
	mkBig := func() mxj.Map {
		l := make([]interface{}, bigN)
		for i := range l {
			l[i] = map[string]interface{}{"id": float64(i), "-n": "v", "t": "some text <&> here"}
		}
		return mxj.Map{"big": map[string]interface{}{"row": l}}
	}
	c.Max("max:private-map-rows", int64(bigN))
	var mkOp func() c17op
	mkOp = func() c17op {
		x := r.Intn(34)
		if x == 24 || x == 25 {
			if bigBudget <= 0 {
				x = r.Intn(24)
			}
			bigBudget--
		}
		switch x {
		case 26:
			p := pathString(genPath(r, sharedRoot, pool, true, false))
			k := pool[r.Intn(len(pool))]
			return c17op{"q:ValueForPath/ValueForKey/Exists", func() string {
				v, e := shared.ValueForPath(p)
				_, e2 := shared.ValueForKey(k) // (which of several hits comes first follows map iteration order: only the error is compared)
				ex, e3 := shared.Exists(p)
				s, e4 := shared.ValueForPathString(p)
				return jv.Fp(v) + fmt.Sprint(e, e2, ex, e3, s, e4)
			}}
		case 27:
			na := r.Intn(2) == 0
			return c17op{"q:Leaf*(no_attr option)", func() string {
				var s []string
				for _, l := range shared.LeafNodes(na) {
					s = append(s, l.Path+"="+jv.Fp(l.Value))
				}
				return sortedStrings(s) + sortedStrings(shared.LeafPaths(na)) + fmt.Sprint(len(shared.LeafValues(na)))
			}}
		case 28:
			p := pathString(genPath(r, sharedRoot, pool, false, false))
			return c17op{"q:Elements/Attributes/Root", func() string {
				el, e := shared.Elements(p)
				at, e2 := shared.Attributes(p)
				rt, e3 := shared.Root()
				sort.Strings(el)
				sort.Strings(at)
				return fmt.Sprint(el, e, at, e2, rt, e3)
			}}
		case 29:
			// private Maps only: a multi-valued query next to first-value queries of other goroutines
			n := 3 + r.Intn(5)
			return c17op{"p:private-queries", func() string {
				l := make([]interface{}, n)
				for i := range l {
					l[i] = map[string]interface{}{"id": float64(i), "-a": "x", "#text": "t"}
				}
				pm := mxj.Map{"doc": map[string]interface{}{"row": l, "-attr": "1", "one": "v"}}
				vs, e := pm.ValuesForPath("doc.row.id")
				v1, e1 := pm.ValueForPath("doc.row.id")
				ks, e2 := pm.ValuesForKey("id")
				k1, e3 := pm.ValueForKey("id")
				full, noat := pm.LeafNodes(), pm.LeafNodes(true)
				return fpVals(vs, e) + jv.Fp(v1) + fmt.Sprint(e1) + fpVals(ks, e2) + jv.Fp(k1) + fmt.Sprint(e3, len(full), len(noat))
			}}
		case 30, 31:
			// private Maps written to (and read back from) files of their own in one shared directory
			id := atomic.AddInt64(&c17fileSeq, 1)
			json := x == 31
			return c17op{"p:private-file-write-read", func() string {
				fn := filepath.Join(c19scratch(), fmt.Sprintf("c17-%d-%d", os.Getpid(), id))
				defer os.Remove(fn)
				ms := mxj.Maps{mxj.Map{"doc": map[string]interface{}{"id": float64(id), "t": "text"}}, mxj.Map{"second": map[string]interface{}{"id": float64(-id)}}}
				var we, re error
				var back mxj.Maps
				if json {
					we = ms.JsonFile(fn)
					back, re = mxj.NewMapsFromJsonFile(fn)
				} else {
					we = ms.XmlFileIndent(fn, "", " ")
					back, re = mxj.NewMapsFromXmlFile(fn)
				}
				s := fmt.Sprint(we, re, len(back))
				for _, b := range back {
					s += jv.Fp(b)
				}
				return s
			}}
		case 32:
			return c17op{"p:private-Gob", func() string {
				pm := mxj.Map{"doc": map[string]interface{}{"l": []interface{}{1.5, "x", map[string]interface{}{"k": "v"}}}}
				b, e := pm.Gob()
				if e != nil {
					if strings.Contains(e.Error(), "type not registered") {
						return "ERR gob: type not registered"
					}
					return "ERR " + e.Error()
				}
				back, e2 := mxj.NewMapGob(b)
				return jv.Fp(back) + fmt.Sprint(e2)
			}}
		case 33:
			return c17op{"e:MapSeq.Xml+Indent", func() string {
				b, e := sharedSeq.Xml()
				b2, e2 := sharedSeq.XmlIndent("", "  ")
				return string(b) + fmt.Sprint(e) + string(b2) + fmt.Sprint(e2)
			}}
		case 24:
			return c17op{"p:large-private-Json", func() string {
				m := mkBig()
				b, e := m.Json()
				b2, e2 := m.JsonIndent("", " ")
				return fmt.Sprint(len(b), len(b2), core.HashStr(string(b)), e, e2)
			}}
		case 25:
			return c17op{"p:large-private-Xml-Copy", func() string {
				m := mkBig()
				b, e := m.Xml()
				cp, e2 := m.Copy()
				return fmt.Sprint(len(b), core.HashStr(string(b)), e, len(cp), e2)
			}}
		case 23:
			p := []string{"sec.item", "sec.*", "sec.id"}[r.Intn(3)]
			return c17op{"q:ValuesForPath(collecting)", func() string { return fpVals(shared.ValuesForPath(p)) }}
		case 22:
			return c17op{"q:ValuesForPath(wide)", func() string { return fpVals(shared.ValuesForPath("items")) + fpVals(shared.ValuesForKey("id")) }}
		case 0:
			p := pathString(genPath(r, sharedRoot, pool, false, true))
			return c17op{"q:ValuesForPath", func() string { return fpVals(shared.ValuesForPath(p)) }}
		case 1:
			segs := genPath(r, sharedRoot, pool, true, false)
			p := pathString(segs)
			sk := "id:" + []string{"x", "y", "5"}[r.Intn(3)]
			return c17op{"q:ValuesForPath[i]+subkeys", func() string { return fpVals(shared.ValuesForPath(p, sk)) }}
		case 2:
			k := pool[r.Intn(len(pool))]
			if r.Intn(3) == 0 {
				k = "*"
				return c17op{"q:ValuesForKey(*)", func() string {
					vs, e := shared.ValuesForKey(k)
					s := make([]string, 0, len(vs))
					for _, v := range vs {
						s = append(s, jv.Fp(v))
					}
					return sortedStrings(s) + fmt.Sprint(e) // (map iteration order decides the order of the hits)
				}}
			}
			return c17op{"q:ValuesForKey", func() string { return fpVals(shared.ValuesForKey(k)) }}
		case 3:
			k := pool[r.Intn(len(pool))]
			return c17op{"q:PathsForKey", func() string {
				return sortedStrings(shared.PathsForKey(k)) + "#" + fmt.Sprint(len(strings.Split(shared.PathForKeyShortest(k), ".")))
			}}
		case 4:
			return c17op{"q:LeafNodes", func() string {
				var s []string
				for _, l := range shared.LeafNodes() {
					s = append(s, l.Path+"="+jv.Fp(l.Value))
				}
				return sortedStrings(s)
			}}
		case 5:
			return c17op{"e:Xml", func() string { b, e := shared.Xml(); return string(b) + fmt.Sprint(e) }}
		case 6:
			return c17op{"e:XmlIndent", func() string { b, e := shared.XmlIndent("", "  "); return string(b) + fmt.Sprint(e) }}
		case 7:
			return c17op{"e:Json", func() string { b, e := shared.Json(); return string(b) + fmt.Sprint(e) }}
		case 8:
			return c17op{"e:JsonIndent", func() string { b, e := shared.JsonIndent("", " ", true); return string(b) + fmt.Sprint(e) }}
		case 9:
			return c17op{"e:Copy", func() string { m, e := shared.Copy(); return jv.Fp(m) + fmt.Sprint(e) }}
		case 10:
			return c17op{"e:Gob", func() string {
				b, e := shared.Gob()
				if e != nil {
					if strings.Contains(e.Error(), "type not registered") {
						return "ERR gob: type not registered" // (which nested type gob meets first follows map iteration order)
					}
					return "ERR" + e.Error()
				}
				m, e := mxj.NewMapGob(b)
				return jv.Fp(m) + fmt.Sprint(e)
			}}
		case 11:
			return c17op{"e:StringIndent", func() string { return shared.StringIndent() }}
		case 12:
			return c17op{"e:MapSeq.Xml", func() string { b, e := sharedSeq.Xml(); return string(b) + fmt.Sprint(e) }}
		case 13:
			return c17op{"e:MapSeq.XmlIndent", func() string { b, e := sharedSeq.XmlIndent("", " "); return string(b) + fmt.Sprint(e) }}
		case 14:
			d := xmlDocs[r.Intn(len(xmlDocs))]
			return c17op{"d:NewMapXml", func() string { m, e := mxj.NewMapXml(d, true); return jv.Fp(m) + fmt.Sprint(e) }}
		case 15:
			d := xmlDocs[r.Intn(len(xmlDocs))]
			return c17op{"d:NewMapXmlReader", func() string {
				m, e := mxj.NewMapXmlReader(plainReader{bytes.NewReader(d)})
				return jv.Fp(m) + fmt.Sprint(e)
			}}
		case 16:
			d := xmlDocs[r.Intn(len(xmlDocs))]
			return c17op{"d:NewMapXmlReaderRaw", func() string {
				m, raw, e := mxj.NewMapXmlReaderRaw(plainReader{bytes.NewReader(d)})
				return jv.Fp(m) + string(raw) + fmt.Sprint(e)
			}}
		case 17:
			return c17op{"d:NewMapXmlSeq", func() string { m, e := mxj.NewMapXmlSeq(seqDoc); return jv.Fp(m) + fmt.Sprint(e) }}
		case 18:
			d := jsonDocs[r.Intn(len(jsonDocs))]
			return c17op{"d:NewMapJson", func() string { m, e := mxj.NewMapJson(d); return jv.Fp(m) + fmt.Sprint(e) }}
		case 19:
			d := jsonDocs[r.Intn(len(jsonDocs))]
			return c17op{"d:NewMapJsonReader", func() string {
				m, raw, e := mxj.NewMapJsonReaderRaw(plainReader{bytes.NewReader(d)})
				return jv.Fp(m) + string(raw) + fmt.Sprint(e)
			}}
		case 20:
			// private Map: decode, update, encode
			d := xmlDocs[r.Intn(len(xmlDocs))]
			return c17op{"p:decode-update-encode", func() string {
				m, e := mxj.NewMapXml(d)
				if e != nil {
					return "ERR" + e.Error()
				}
				m.UpdateValuesForPath("a:NEW", "*.a")
				m.SetValueForPath("v", "zz")
				b, e := m.Xml()
				return string(b) + fmt.Sprint(e)
			}}
		default:
			k := pool[r.Intn(len(pool))]
			return c17op{"q:NewMap", func() string { m, e := shared.NewMap(k+":n", "doc:d"); return jv.Fp(m) + fmt.Sprint(e) }}
		}
	}
	perG := 20 + r.Intn(40)
	plan := make([][]c17op, G)
	want := make([][]string, G)
	// In half of the rounds the sequential reference results are computed AFTER the concurrent phase, so that state the
	// library initialises lazily (tables, caches) is touched for the first time by concurrent goroutines.
	concurrentFirst := c.Index%2 == 0
	for g := 0; g < G; g++ {
		for i := 0; i < perG; i++ {
			op := mkOp()
			plan[g] = append(plan[g], op)
			if concurrentFirst {
				want[g] = append(want[g], "")
			} else {
				want[g] = append(want[g], op.f()) // sequential result, computed beforehand
			}
		}
	}
	if concurrentFirst {
		// a list longer than any list walked so far in this process: whatever the library sizes lazily by the longest list
		// it has seen is grown for the first time by concurrent goroutines
		n := int(atomic.AddInt64(&c17growLen, 37))
		for g := 0; g < G; g++ {
			plan[g][len(plan[g])-1] = c17op{"p:private-Leaf*(longest list so far)", func() string {
				l := make([]interface{}, n)
				for i := range l {
					l[i] = map[string]interface{}{"id": float64(i), "-a": "x"}
				}
				pm := mxj.Map{"doc": map[string]interface{}{"row": l}}
				return fmt.Sprint(len(pm.LeafNodes()), len(pm.LeafPaths(true)), len(pm.LeafValues()))
			}}
			plan[g][0], plan[g][len(plan[g])-1] = plan[g][len(plan[g])-1], plan[g][0]
		}
	}
	if !gobRegistered && !c17gobRoundDone && concurrentFirst {
		// process without registered gob types: its very first Gob calls are made by all goroutines at once
		c17gobRoundDone = true
		c.Count("conc:first-gob-calls-concurrent")
		for g := 0; g < G; g++ {
			plan[g][0] = c17op{"p:private-Gob(first in process)", func() string {
				pm := mxj.Map{"doc": map[string]interface{}{"l": []interface{}{1.5, "x", map[string]interface{}{"k": "v"}}}}
				b, e := pm.Gob()
				if e != nil {
					if strings.Contains(e.Error(), "type not registered") {
						return "ERR gob: type not registered"
					}
					return "ERR " + e.Error()
				}
				back, e2 := mxj.NewMapGob(b)
				return jv.Fp(back) + fmt.Sprint(e2)
			}}
		}
	}
	// ---- concurrent execution ----
	var tick int64
	recs := make([][]c17rec, G)
	start := make(chan struct{})
	var wg sync.WaitGroup
	for g := 0; g < G; g++ {
		wg.Add(1)
		go func(g int) {
			defer wg.Done()
			<-start
			for i, op := range plan[g] {
				s := atomic.AddInt64(&tick, 1)
				got := op.f()
				e := atomic.AddInt64(&tick, 1)
				recs[g] = append(recs[g], c17rec{g, i, op.kind, s, e, got, want[g][i]})
			}
		}(g)
	}
	close(start)
	wg.Wait()
	if concurrentFirst {
		c.Count("conc:rounds-concurrent-first")
		for g := range recs {
			for i := range recs[g] {
				recs[g][i].want = plan[g][i].f() // sequential result, computed afterwards
			}
		}
	}
	// ---- offline check over the recorded history ----
	var all []c17rec
	for g := range recs {
		for _, rc := range recs[g] {
			c.Count("conc:ops")
			if rc.got != rc.want {
				c.Violate("c17-result-differs:"+rc.kind, "an operation returned a different result when run concurrently than sequentially", core.D{"op": rc.kind, "goroutine": rc.g, "concurrent": rc.got, "sequential": rc.want, "goroutines": G})
			}
			all = append(all, rc)
		}
	}
	if after := jv.Fp(sharedRoot); after != sharedFp {
		c.Violate("c17-shared-map-modified", "the shared read-only Map changed during the round", core.D{"before": sharedFp, "after": after})
	}
	sort.Slice(all, func(i, j int) bool { return all[i].start < all[j].start })
	pairs := 0
	for i := range all {
		for j := i + 1; j < len(all) && all[j].start < all[i].end; j++ {
			if all[i].g != all[j].g {
				a, b := all[i].kind, all[j].kind
				if a > b {
					a, b = b, a
				}
				c.Distinct("overlap-pairs", core.HashStr(a+"||"+b))
				pairs++
			}
		}
	}
	c.Add("conc:overlapping-op-pairs", int64(pairs))
	c.Max("max:goroutines", int64(G))
	if c.WantSample() {
		c.Sample(core.D{"kind": "concurrency round", "goroutines": G, "gomaxprocs": procs, "ops_per_goroutine": perG, "overlapping_op_pairs_observed": pairs})
	}
}
