// Package jv: independent observers and generators for JSON/XML-shaped values
// (map[string]interface{} trees). Nothing here calls into mxj.
package jv

import (
	"encoding/json"
	"fmt"
	"math"
	"math/rand"
	"reflect"
	"sort"
	"strconv"
	"strings"
)

type M = map[string]interface{}
type L = []interface{}

// Copy is a deep copy by type switch (independent of Map.Copy).
func Copy(v interface{}) interface{} {
	switch t := v.(type) {
	case M:
		o := make(M, len(t))
		for k, x := range t {
			o[k] = Copy(x)
		}
		return o
	case L:
		o := make(L, len(t))
		for i, x := range t {
			o[i] = Copy(x)
		}
		return o
	default:
		return v
	}
}

// Fp is a canonical, map-order-insensitive fingerprint that distinguishes
// types (int/int64/uint64/float64/string/bool/nil/json.Number), empty map vs
// empty list, and list order.
func Fp(v interface{}) string {
	var b strings.Builder
	fp(&b, v)
	return b.String()
}

func fp(b *strings.Builder, v interface{}) {
	switch t := v.(type) {
	case nil:
		b.WriteString("N")
	case M:
		keys := make([]string, 0, len(t))
		for k := range t {
			keys = append(keys, k)
		}
		sort.Strings(keys)
		b.WriteString("{")
		for _, k := range keys {
			b.WriteString(strconv.Quote(k))
			b.WriteString(":")
			fp(b, t[k])
			b.WriteString(",")
		}
		b.WriteString("}")
	case L:
		b.WriteString("[")
		for _, x := range t {
			fp(b, x)
			b.WriteString(",")
		}
		b.WriteString("]")
	case string:
		b.WriteString("s")
		b.WriteString(strconv.Quote(t))
	case float64:
		b.WriteString("f")
		if math.IsNaN(t) {
			b.WriteString("NaN")
		} else {
			b.WriteString(strconv.FormatFloat(t, 'g', -1, 64))
		}
	case bool:
		if t {
			b.WriteString("bT")
		} else {
			b.WriteString("bF")
		}
	case int:
		b.WriteString("i" + strconv.Itoa(t))
	case int64:
		b.WriteString("i64_" + strconv.FormatInt(t, 10))
	case uint64:
		b.WriteString("u64_" + strconv.FormatUint(t, 10))
	case json.Number:
		b.WriteString("n" + string(t))
	default:
		rv := reflect.ValueOf(v)
		if rv.Kind() == reflect.Map && rv.Type().Key().Kind() == reflect.String {
			// named map types (mxj.Map, mxj.MapSeq)
			m := M{}
			for _, k := range rv.MapKeys() {
				m[k.String()] = rv.MapIndex(k).Interface()
			}
			fp(b, m)
			return
		}
		fmt.Fprintf(b, "?%T:%v", v, v)
	}
}

func Equal(a, b interface{}) bool { return Fp(a) == Fp(b) }

// Show renders a value compactly for witnesses.
func Show(v interface{}) string {
	s := Fp(v)
	if len(s) > 1500 {
		s = s[:1500] + "…"
	}
	return s
}

// MultisetEqual compares two value lists as multisets by fingerprint.
func MultisetEqual(a, b []interface{}) bool {
	if len(a) != len(b) {
		return false
	}
	ca := map[string]int{}
	for _, x := range a {
		ca[Fp(x)]++
	}
	for _, x := range b {
		k := Fp(x)
		ca[k]--
		if ca[k] < 0 {
			return false
		}
	}
	return true
}

func SeqEqual(a, b []interface{}) bool {
	if len(a) != len(b) {
		return false
	}
	for i := range a {
		if Fp(a[i]) != Fp(b[i]) {
			return false
		}
	}
	return true
}

// SharesStructure reports whether any map or slice (with len>0) reachable from
// a is also reachable from b (pointer identity).
func SharesStructure(a, b interface{}) bool {
	seen := map[uintptr]bool{}
	var walk func(v interface{}, mark bool) bool
	walk = func(v interface{}, mark bool) bool {
		switch t := v.(type) {
		case M:
			p := reflect.ValueOf(t).Pointer()
			if mark {
				seen[p] = true
			} else if seen[p] {
				return true
			}
			for _, x := range t {
				if walk(x, mark) {
					return true
				}
			}
		case L:
			if len(t) > 0 {
				p := reflect.ValueOf(t).Pointer()
				if mark {
					seen[p] = true
				} else if seen[p] {
					return true
				}
			}
			for _, x := range t {
				if walk(x, mark) {
					return true
				}
			}
		}
		return false
	}
	walk(a, true)
	return walk(b, false)
}

// ---------------- generators ----------------

type GenOpt struct {
	Keys       []string // key alphabet
	MaxDepth   int
	MaxFan     int
	WideProb   int  // 1/WideProb chance of a wide (33..80) container; 0 = never
	ListInList bool // allow a list directly inside a list
	EmptyConts bool // allow empty maps / lists
	Nulls      bool
	Scalars    func(r *rand.Rand) interface{}
	nodes      *int // containers generated so far (size budget, see Fresh)
}

// Fresh returns a copy of o with a new size budget: once ~2500 container members exist, containers stay small
// (several wide levels nested in each other would otherwise produce 10^5-node values and multi-second cases).
func (o GenOpt) Fresh() GenOpt {
	o.nodes = new(int)
	return o
}

// WideSizes: further member counts for wide containers (set by mon from the integer literals of the tree under test).
var WideSizes []int

var DefaultKeys = []string{"a", "b", "c", "k", "doc", "items", "sub", "list", "n0", "x"}

func DefScalar(r *rand.Rand) interface{} {
	switch r.Intn(8) {
	case 0:
		return float64(r.Intn(5))
	case 1:
		return r.Intn(2) == 0
	case 2:
		return []string{"", "v", "w", "1", "true", "x y"}[r.Intn(6)]
	case 3:
		return float64(r.Intn(100)) / 4
	default:
		return "s" + strconv.Itoa(r.Intn(6))
	}
}

func (o GenOpt) scalar(r *rand.Rand) interface{} {
	if o.Nulls && r.Intn(12) == 0 {
		return nil
	}
	if o.Scalars != nil {
		return o.Scalars(r)
	}
	return DefScalar(r)
}

func (o GenOpt) fan(r *rand.Rand) int {
	over := o.nodes != nil && *o.nodes > 2500
	n := 0
	if o.WideProb > 0 && r.Intn(o.WideProb) == 0 && !over {
		n = 33 + r.Intn(48)
		if len(WideSizes) > 0 && r.Intn(3) == 0 {
			n = WideSizes[r.Intn(len(WideSizes))]
		}
	} else {
		lo := 1
		if o.EmptyConts {
			lo = 0
		}
		n = lo + r.Intn(o.MaxFan+1-lo)
		if over && n > 1 {
			n = 1
		}
	}
	if o.nodes != nil {
		*o.nodes += n
	}
	return n
}

func (o GenOpt) Map(r *rand.Rand, depth int) M {
	n := o.fan(r)
	m := M{}
	for i := 0; i < n; i++ {
		var k string
		if n > len(o.Keys) {
			k = o.Keys[r.Intn(len(o.Keys))] + strconv.Itoa(i)
		} else {
			k = o.Keys[r.Intn(len(o.Keys))]
		}
		m[k] = o.Value(r, depth-1, false)
	}
	return m
}

func (o GenOpt) List(r *rand.Rand, depth int) L {
	n := o.fan(r)
	l := make(L, 0, n)
	kind := r.Intn(4) // 0 maps, 1 scalars, 2 mixed, 3 maps
	for i := 0; i < n; i++ {
		switch {
		case kind == 1 || depth <= 0:
			l = append(l, o.scalar(r))
		case kind == 2:
			l = append(l, o.Value(r, depth-1, true))
		default:
			l = append(l, o.Map(r, depth-1))
		}
	}
	return l
}

func (o GenOpt) Value(r *rand.Rand, depth int, inList bool) interface{} {
	if depth <= 0 {
		return o.scalar(r)
	}
	switch r.Intn(10) {
	case 0, 1, 2:
		return o.scalar(r)
	case 3, 4, 5:
		if inList && !o.ListInList {
			return o.Map(r, depth)
		}
		return o.List(r, depth)
	default:
		return o.Map(r, depth)
	}
}

// HasListInList reports whether some list directly contains a list.
func HasListInList(v interface{}) bool {
	switch t := v.(type) {
	case M:
		for _, x := range t {
			if HasListInList(x) {
				return true
			}
		}
	case L:
		for _, x := range t {
			if _, ok := x.(L); ok {
				return true
			}
			if HasListInList(x) {
				return true
			}
		}
	}
	return false
}

// Depth of nesting.
func Depth(v interface{}) int {
	d := 0
	switch t := v.(type) {
	case M:
		for _, x := range t {
			if e := Depth(x) + 1; e > d {
				d = e
			}
		}
	case L:
		for _, x := range t {
			if e := Depth(x) + 1; e > d {
				d = e
			}
		}
	}
	return d
}

// Keys in sorted order.
func Keys(m M) []string {
	ks := make([]string, 0, len(m))
	for k := range m {
		ks = append(ks, k)
	}
	sort.Strings(ks)
	return ks
}

// Diff returns the path and values of the first difference between two trees ("" if equal).
func Diff(a, b interface{}) string {
	return diff("", norm(a), norm(b))
}

func norm(v interface{}) interface{} {
	rv := reflect.ValueOf(v)
	if v != nil && rv.Kind() == reflect.Map {
		if _, ok := v.(M); !ok && rv.Type().Key().Kind() == reflect.String {
			m := M{}
			for _, k := range rv.MapKeys() {
				m[k.String()] = rv.MapIndex(k).Interface()
			}
			return m
		}
	}
	return v
}

func diff(path string, a, b interface{}) string {
	if Fp(a) == Fp(b) {
		return ""
	}
	switch x := a.(type) {
	case M:
		y, ok := norm(b).(M)
		if !ok {
			break
		}
		for _, k := range Keys(x) {
			w, ok := y[k]
			if !ok {
				return fmt.Sprintf("at %s: key %q missing on the right (left value %s)", path, k, Show(x[k]))
			}
			if d := diff(path+"."+k, norm(x[k]), norm(w)); d != "" {
				return d
			}
		}
		for _, k := range Keys(y) {
			if _, ok := x[k]; !ok {
				return fmt.Sprintf("at %s: key %q only on the right (value %s)", path, k, Show(y[k]))
			}
		}
	case L:
		y, ok := b.(L)
		if !ok {
			break
		}
		if len(x) != len(y) {
			return fmt.Sprintf("at %s: list lengths %d vs %d", path, len(x), len(y))
		}
		for i := range x {
			if d := diff(fmt.Sprintf("%s[%d]", path, i), norm(x[i]), norm(y[i])); d != "" {
				return d
			}
		}
	}
	return fmt.Sprintf("at %s: %s vs %s", path, Show(a), Show(b))
}

// Cyclic reports whether a map or slice is reachable from itself.
func Cyclic(v interface{}) bool {
	onPath := map[uintptr]bool{}
	var walk func(v interface{}, depth int) bool
	walk = func(v interface{}, depth int) bool {
		if depth > 100000 {
			return true
		}
		switch t := v.(type) {
		case M:
			p := reflect.ValueOf(t).Pointer()
			if onPath[p] {
				return true
			}
			onPath[p] = true
			for _, x := range t {
				if walk(x, depth+1) {
					return true
				}
			}
			delete(onPath, p)
		case L:
			for _, x := range t {
				if walk(x, depth+1) {
					return true
				}
			}
		}
		return false
	}
	return walk(v, 0)
}

// Alias makes the value a DAG: up to n times, a map S that already occurs in root is stored a second time - the same Go
// map, not a copy - in another map slot or list position outside S (never inside S: no cycles). Every tree-shaped reading
// of the value (what is stored under which path) is what a reference walking it computes; keys for which skipKey holds are never overwritten; code that keys on
// the identity of a map (visited sets, caches) sees the same object twice. Returns how many aliases were made.
func Alias(r *rand.Rand, root M, n int, skipKey func(string) bool) int {
	made := 0
	for ; n > 0; n-- {
		var maps []M
		type slot struct {
			m M
			k string
			l L
			i int
		}
		var slots []slot
		var walk func(v interface{})
		walk = func(v interface{}) {
			switch t := v.(type) {
			case M:
				maps = append(maps, t)
				for _, k := range Keys(t) {
					if skipKey == nil || !skipKey(k) {
						slots = append(slots, slot{m: t, k: k})
					}
					walk(t[k])
				}
			case L:
				for i, e := range t {
					if _, ok := e.(M); ok {
						slots = append(slots, slot{l: t, i: i})
					}
					walk(e)
				}
			}
		}
		walk(root)
		if len(maps) < 2 || len(slots) == 0 || len(maps) > 4000 {
			return made
		}
		s := maps[1+r.Intn(len(maps)-1)] // not the root
		inside := map[uintptr]bool{}
		var mark func(v interface{})
		mark = func(v interface{}) {
			switch t := v.(type) {
			case M:
				inside[reflect.ValueOf(t).Pointer()] = true
				for _, e := range t {
					mark(e)
				}
			case L:
				if len(t) > 0 {
					inside[reflect.ValueOf(t).Pointer()] = true
				}
				for _, e := range t {
					mark(e)
				}
			}
		}
		mark(s)
		d := slots[r.Intn(len(slots))]
		if d.m != nil {
			if inside[reflect.ValueOf(d.m).Pointer()] {
				continue
			}
			d.m[d.k] = s
		} else {
			if inside[reflect.ValueOf(d.l).Pointer()] {
				continue
			}
			d.l[d.i] = s
		}
		made++
	}
	return made
}
