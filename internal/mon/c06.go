package mon

import (
	"bytes"
	"encoding/json"
	"fmt"
	"math/rand"
	"strings"

	mxj "github.com/clbanning/mxj/v2"

	"verif/internal/core"
	"verif/internal/jv"
)

// C06 - JSON encode/decode is lossless and agrees with encoding/json.
type c06 struct{}

func init() { register(c06{}) }

func (c06) Meta() core.Meta {
	return core.Meta{
		ID: "C06", Level: "exploration",
		Rule:        "case i = f(seed,i): Map of JSON types with arbitrary keys/strings built from the atoms < > & \\ \" control chars U+2028 non-ASCII braces brackets and the literal six-character texts \\u003c \\u003e \\u0026 (single and double backslash); Json(), Json(true), JsonIndent(p,i[,true]) must be json.Valid, decode back (NewMapJson) to an equal Map, contain exactly as many literal < > & bytes as the Map's keys and strings (default) or none (safe); Copy returns an equal Map. Acceptance: a byte string derived from the document (identity, truncation, single-byte corruption, leading whitespace, array form with optional leading blank / trailing data, scalars, null, empty, two documents, invalid UTF-8) is given to NewMapJson and to json.Decoder: NewMapJson must fail iff the std decoder fails or its first value is neither object nor array, return that value (array under \"object\") otherwise and an empty Map on failure; with JsonUseNumber every numeric leaf is a json.Number with the source literal. Non-trivial: Map contains a special character or the byte string is not the plain document; distinct by hash(map or bytes).",
		Assumptions: []string{"encoding/json is the reference (the property names it)", "invalid UTF-8 appears only in byte strings offered to NewMapJson, not in Map strings"},
		Anchors:     []string{"Map.Json", "Map.JsonIndent", "NewMapJson", "Map.Copy"},
		Floors:      map[string]int64{"strings:html-chars": 3000, "strings:u003c-literal": 500, "accept:std-rejects": 1000, "accept:std-accepts-object": 1000, "accept:array-form": 500, "accept:non-container": 300, "usenumber:leaves": 1000},
	}
}

func (c06) Cases(tier string, race bool) int {
	if race {
		return 0
	}
	if tier == "thorough" {
		return 800000
	}
	return 80000
}

var c06atoms = []string{"<", ">", "&", `\`, `"`, "u003c", `<`, `\\u003c`, `>`, `&`, `\\u0026`, "a", "é", "\x01", "\n", "\t", " ", "{", "}", "[", "]", ":", ",", " ", " ", "/", "</script>", "\x7f", `\u2028`, `\\u2029`, "u2028", "\u2029", `\u00e9`, `\n`, `\"`}

func c06str(r *rand.Rand) string {
	var b strings.Builder
	for i, n := 0, r.Intn(6); i < n; i++ {
		if r.Intn(14) == 0 {
			b.WriteString(autoString(r, "a")) // a literal of the tree under test
			continue
		}
		b.WriteString(c06atoms[r.Intn(len(c06atoms))])
	}
	return b.String()
}

func c06val(r *rand.Rand, d int) interface{} {
	switch x := r.Intn(8); {
	case d <= 0 || x < 3:
		switch r.Intn(5) {
		case 0:
			return nil
		case 1:
			return r.Intn(2) == 0
		case 2:
			return []float64{0, -1.5, 1e21, 3, 1e-7, 123456789.125, 9007199254740993}[r.Intn(7)]
		}
		return c06str(r)
	case x < 6:
		m := map[string]interface{}{}
		for i, n := 0, r.Intn(4); i < n; i++ {
			m[c06str(r)] = c06val(r, d-1)
		}
		return m
	default:
		l := []interface{}{}
		for i, n := 0, r.Intn(4); i < n; i++ {
			l = append(l, c06val(r, d-1))
		}
		return l
	}
}

func countLit(v interface{}, cnt *[3]int) {
	cs := func(s string) {
		cnt[0] += strings.Count(s, "<")
		cnt[1] += strings.Count(s, ">")
		cnt[2] += strings.Count(s, "&")
	}
	switch t := v.(type) {
	case string:
		cs(t)
	case map[string]interface{}:
		for k, e := range t {
			cs(k)
			countLit(e, cnt)
		}
	case []interface{}:
		for _, e := range t {
			countLit(e, cnt)
		}
	}
}

func numberLeaves(v interface{}, f func(interface{})) {
	switch t := v.(type) {
	case map[string]interface{}:
		for _, e := range t {
			numberLeaves(e, f)
		}
	case []interface{}:
		for _, e := range t {
			numberLeaves(e, f)
		}
	case float64, json.Number:
		f(t)
	}
}

func (c06) Case(c *core.Ctx) {
	r := c.R
	defer ResetDefaults()
	defer verifyKept(c, "c06-retained-output-changed")
	c.Eval()
	failedCalls(c, 8)
	m := map[string]interface{}{}
	for j, n := 0, 1+r.Intn(3); j < n; j++ {
		m[c06str(r)] = c06val(r, 3)
	}
	mfp := jv.Fp(m)
	var want [3]int
	countLit(m, &want)
	if want != [3]int{} {
		c.Count("strings:html-chars")
	}
	if strings.Contains(mfp, "u003c") || strings.Contains(mfp, "u0026") || strings.Contains(mfp, "u003e") {
		c.Count("strings:u003c-literal")
	}
	if want != [3]int{} || strings.Contains(mfp, `\\`) {
		c.NonTrivial("map", mfp)
	}
	for _, safe := range []bool{false, true} {
		for _, form := range []int{0, 1, 2} {
			var out []byte
			var err error
			api := ""
			switch form {
			case 0:
				if safe {
					out, err = mxj.Map(m).Json(true)
				} else if r.Intn(2) == 0 {
					out, err = mxj.Map(m).Json()
				} else {
					out, err = mxj.Map(m).Json(false)
				}
				api = "Json"
			case 1:
				pi := [][2]string{{"", " "}, {"", " "}, {"", ""}, {" ", ""}, {"", "\t"}, {"  ", " "}}[r.Intn(6)]
				if safe {
					out, err = mxj.Map(m).JsonIndent(pi[0], pi[1], true)
				} else {
					out, err = mxj.Map(m).JsonIndent(pi[0], pi[1])
				}
				api = fmt.Sprintf("JsonIndent(%q,%q)", pi[0], pi[1])
			default:
				out, err = mxj.Map(m).JsonIndent("\t", "  ", safe)
				api = "JsonIndent(prefix)"
			}
			det := core.D{"api": api, "safe": safe, "map": jv.Show(m), "output": string(out)}
			if err != nil {
				det["err"] = err.Error()
				c.Violate("c06-encode-error", api+" failed on a Map of JSON types", det)
				continue
			}
			keep(c, api, out)
			if !json.Valid(out) {
				c.Violate("c06-invalid-json", api+" produced invalid JSON", det)
				continue
			}
			back, berr := mxj.NewMapJson(out)
			if berr != nil || jv.Fp(back) != mfp {
				det["err"] = fmt.Sprint(berr)
				det["first_difference"] = jv.Diff(m, map[string]interface{}(back))
				c.Violate("c06-roundtrip", "NewMapJson("+api+"(m)) differs from m", det)
				continue
			}
			got := [3]int{bytes.Count(out, []byte("<")), bytes.Count(out, []byte(">")), bytes.Count(out, []byte("&"))}
			if safe && got != [3]int{} {
				c.Violate("c06-safe-has-literal", "safe encoding contains a literal <, > or &", det)
			}
			if !safe && got != want {
				det["literal_counts(< > &)"] = fmt.Sprint(got, " want ", want)
				c.Violate("c06-default-literal-count", "default encoding does not show <, > and & literally exactly where the Map has them", det)
			}
		}
	}
	cp, cerr := mxj.Map(m).Copy()
	if cerr != nil || jv.Fp(cp) != mfp {
		c.Violate("c06-copy", "Copy does not return an equal Map", core.D{"map": jv.Show(m), "copy": jv.Show(cp), "err": fmt.Sprint(cerr)})
	} else if jv.SharesStructure(m, map[string]interface{}(cp)) {
		c.Violate("c06-copy-shares", "Copy shares structure with the original", core.D{"map": jv.Show(m)})
	}

	// ---- acceptance on derived byte strings ----
	c.Eval()
	base, _ := json.Marshal(m)
	b := append([]byte{}, base...)
	mut := r.Intn(10)
	switch mut {
	case 0:
		b = b[:r.Intn(len(b)+1)]
	case 1:
		hs := []byte("{}[]\",:\\ x\xff\x00n1")
		b[r.Intn(len(b))] = hs[r.Intn(len(hs))]
	case 2:
		b = append([]byte([]string{" ", "\n", " \t\r\n"}[r.Intn(3)]), b...)
	case 3:
		lj, _ := json.Marshal([]interface{}{m, 1.0, "x"})
		b = lj
		if r.Intn(2) == 0 {
			b = append([]byte([]string{" ", "\n\t"}[r.Intn(2)]), b...)
		}
		if r.Intn(2) == 0 {
			b = append(b, []byte([]string{" tail", "{}", " [1]", "x"}[r.Intn(4)])...)
		}
		c.Count("accept:array-form")
	case 4:
		b = []byte([]string{"null", "1", `"s"`, "true", "", " ", "nul", "[]", "[1,2", "{}x", "{} {}", " null", "[null]", "nullx", "-", "1e999", "{", "}", "\xff", "\xef\xbb\xbf{}", "null [1]", "null{\"a\":1}", "1 [2]", "\"s\" {\"a\":1}", "null\n[1,2]", "true[", "nul[1]", "null \"[\""}[r.Intn(28)])
	case 5:
		b = append(b, []byte([]string{" trailing{", "}", "\n{\"a\":1}", ","}[r.Intn(4)])...)
	case 7:
		// a first value the decoder reads to its end but cannot store (a number outside the float64 range: a type
		// error, not a syntax error - the decoder stays usable) followed by a well-formed value
		num := []string{"1e400", "-1e999", "1e309", "123456789e400", "1.7976931348623159e308"}[r.Intn(5)]
		first := []string{"[%s]", "[[%s]]", "[1,{\"k\":%s}]", "{\"n\":%s}", "{\"a\":[%s]}", " [%s,2]"}[r.Intn(6)]
		second := []string{" {\"a\":1}", "{\"a\":1}", "\n[1,2]", " {}", "", " null"}[r.Intn(6)]
		b = []byte(fmt.Sprintf(first, num) + second)
		c.Count("accept:unstorable-number-then-value")
	case 6:
		// invalid UTF-8 inside a string value
		b = bytes.Replace(b, []byte(`"`), []byte("\"\xff"), 1)
	}
	if r.Intn(150) == 0 {
		// nesting depths around the limits a depth counter may have (int8, uint8) and around encoding/json's own limit of 10000
		d := []int{126, 127, 128, 129, 130, 254, 255, 256, 257, 1000, 9999, 10000, 10001, 10001, 10001, 10002}[r.Intn(16)]
		switch r.Intn(3) {
		case 0:
			b = []byte(strings.Repeat("[", d) + "1" + strings.Repeat("]", d))
		case 1:
			b = []byte(strings.Repeat(`{"a":`, d) + "1" + strings.Repeat("}", d))
		default:
			b = []byte(`{"a":` + strings.Repeat("[", d-1) + `{"k":1}` + strings.Repeat("]", d-1) + "}")
		}
		mut = 10
		c.Count("accept:deep-nesting")
	} else if big := autoBig(r); big > 0 && r.Intn(2000) == 0 {
		// an input just beyond a size the tree itself spells out: numbers (exact text under JsonUseNumber) and trailing data
		var bb bytes.Buffer
		bb.WriteString(`{"n":12345678901234567890.10,"pad":"`)
		bb.WriteString(strings.Repeat("p", big+1+r.Intn(64)))
		bb.WriteString(`","m":0.10}`)
		if r.Intn(2) == 0 {
			bb.WriteString(` {"next":1}`)
		}
		b = bb.Bytes()
		mut = 11
		c.Count("accept:larger-than-a-size-the-tree-spells-out")
	}
	if mut != 9 && mut != 8 && len(b) < 1<<16 {
		c.NonTrivial("bytes", string(b))
	}
	useNumber := r.Intn(3) == 0
	mxj.JsonUseNumber = useNumber
	var v interface{}
	dec := json.NewDecoder(bytes.NewReader(b))
	if useNumber {
		dec.UseNumber()
	}
	derr := dec.Decode(&v)
	got, gerr := mxj.NewMapJson(b)
	mxj.JsonUseNumber = false
	var wantMap map[string]interface{}
	wantErr := derr != nil
	switch t := v.(type) {
	case map[string]interface{}:
		wantMap = t
	case []interface{}:
		wantMap = map[string]interface{}{"object": t}
	default:
		wantErr = true
		if derr == nil {
			c.Count("accept:non-container")
		}
	}
	if len(b) == 0 {
		wantErr, wantMap = false, map[string]interface{}{} // documented: empty begets empty
	}
	if wantErr {
		c.Count("accept:std-rejects")
	} else if _, isObj := v.(map[string]interface{}); isObj {
		c.Count("accept:std-accepts-object")
	}
	det := core.D{"input": head(string(b), 400), "input_bytes": len(b), "input_hex": head(fmt.Sprintf("%x", b), 800), "use_number": useNumber, "std_err": fmt.Sprint(derr), "std_value": jv.Show(v), "observed": jv.Show(got), "err": fmt.Sprint(gerr)}
	shape := "object"
	if tb := bytes.TrimLeft(b, " \t\r\n"); len(tb) > 0 && tb[0] == '[' {
		shape = "array"
	} else if len(tb) > 0 && tb[0] != '{' {
		shape = "scalar"
	}
	switch {
	case wantErr && gerr == nil:
		c.Violate("c06-accepts-what-std-rejects:"+shape, "NewMapJson accepted an input whose first value encoding/json rejects or that is not an object/array", det)
	case !wantErr && gerr != nil:
		c.Violate("c06-rejects-what-std-accepts:"+shape, "NewMapJson rejected an input whose first value encoding/json decodes as an object or array", det)
	case wantErr && len(got) != 0 && !(wantMap != nil && jv.Equal(map[string]interface{}(got), wantMap)):
		// (beside an error the Map is empty - or, for a value the std decoder read to its end but could not store
		// completely, what the std decoder itself leaves in its target; the property does not say more)
		c.Violate("c06-partial-map-on-error", "NewMapJson returned a non-empty Map together with an error", det)
	case !wantErr && jv.Fp(got) != jv.Fp(wantMap):
		c.Violate("c06-value-differs:"+shape, "NewMapJson returned a value different from encoding/json's", det)
	}
	if !wantErr && gerr == nil && useNumber {
		numberLeaves(map[string]interface{}(got), func(x interface{}) {
			c.Count("usenumber:leaves")
			if _, ok := x.(json.Number); !ok {
				c.Violate("c06-usenumber", "a numeric leaf is not a json.Number although JsonUseNumber is set", det)
			}
		})
	}
}
